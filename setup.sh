#!/bin/bash
# Offline setup: regenerate the harness wrappers from the plans and warm the
# Kani dependency build (everything comes from files on disk).
set -e
cd "$(dirname "$0")"
export CARGO_NET_OFFLINE=true
python3 uv/gen.py
[ -f harness/Cargo.lock ] || cp /repo/Cargo.lock harness/Cargo.lock
mkdir -p .work evidence replays
# the native replayer must build for every property (a counterexample that cannot be replayed is inconclusive)
for f in c01 c02 c03 c04 c05 c06 c07 c08 c09 c10 c11 c12 c13 c14 c15 c16 c17 c18 c20; do
  (cd harness && cargo build --offline --quiet --features $f --bin replay --target-dir ../.work/nt) || { echo "setup: replay build failed for $f"; exit 1; }
done
echo "setup ok"
