#!/bin/bash
# Offline setup: regenerate the harness wrappers from the plans and warm the
# Kani dependency build (everything comes from files on disk).
set -e
cd "$(dirname "$0")"
export CARGO_NET_OFFLINE=true
python3 uv/gen.py
[ -f harness/Cargo.lock ] || cp /repo/Cargo.lock harness/Cargo.lock
mkdir -p .work evidence replays
echo "setup ok"
