#!/bin/bash
# tools/seed_eval.sh <prop> <diff> [tier] [only-regex] : apply <diff> to a scratch worktree of /repo HEAD, run ./check <prop>
# against it (VERIF_REPO), print the verdict line, remove the worktree.  Development aid only.
set -u
prop=$1; diff=$2; tier=${3:-quick}; only=${4:-}
name=$(basename "$diff" .diff)
wt=/tmp/seedeval/$prop-$name
rm -rf "$wt"; mkdir -p /tmp/seedeval
git -C /repo worktree add -q --detach "$wt" HEAD || exit 3
if ! git -C "$wt" apply "$diff"; then echo "SEED $prop $name: patch does not apply"; git -C /repo worktree remove --force "$wt"; exit 3; fi
cd /verif
out=/verif/.work/seed-$prop-$name.out
if [ -n "$only" ]; then VERIF_REPO="$wt" timeout 7200 ./check "$prop" --tier "$tier" --only "$only" > "$out" 2>&1; else VERIF_REPO="$wt" timeout 3600 ./check "$prop" --tier "$tier" > "$out" 2>&1; fi
rc=$?
echo "SEED $prop $name: exit=$rc $(grep -c '^VIOLATION' "$out") violation line(s); $(grep -m1 '^VIOLATION' "$out" | cut -c1-220)"
tag=$(python3 -c "import hashlib,sys;print(hashlib.sha1(sys.argv[1].encode()).hexdigest()[:8])" "$wt")
rm -rf "/verif/.work/alt-$tag/kt" "/verif/.work/alt-$tag/nt" "/verif/.work/alt-$tag/harness"
git -C /repo worktree remove --force "$wt"
exit $rc
