#!/usr/bin/env python3
"""tools/seed_meta.py <id> <prop> <mut.md> <detected-by> : write seeded/<id>/meta.json from the agent's notes,
the confirmation log and the evaluation result."""
import json, sys, os, re
sid, prop, md, detected = sys.argv[1:5]
d = os.path.join("/verif/seeded", sid)
notes = open(md).read()
conf = ""
p = os.path.join(d, "confirm.log")
if os.path.exists(p):
    conf = [l for l in open(p, errors="replace").read().splitlines() if l.startswith("CONFIRM")][-1]
meta = {
    "id": sid,
    "property": prop,
    "breaks": notes.strip().splitlines()[0][:300],
    "needs_to_manifest": notes,
    "confirmed_by_me": conf,
    "what_i_ran": [
        "tools/seed_confirm.sh: scratch worktree of /repo HEAD; demo test passes on the clean tree, fails with patch.diff; "
        "`cargo test --workspace --offline` (and the touched feature's lib tests) pass with patch.diff",
        "tools/seed_eval.sh: ./check %s --tier quick against the patched scratch worktree (VERIF_REPO)" % prop,
    ],
    "detected_by": detected,
}
json.dump(meta, open(os.path.join(d, "meta.json"), "w"), indent=1)
