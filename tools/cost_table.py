#!/usr/bin/env python3
"""tools/cost_table.py : print the DESIGN section-10 cost table from the evidence files (development aid)"""
import json, glob, os
rows = []
for f in sorted(glob.glob('/verif/evidence/C*.json')):
    e = json.load(open(f))
    cov = e.get('coverage', {})
    n = cov.get('harnesses') if isinstance(cov, dict) else None
    if isinstance(n, list):
        n = len(n)
    rows.append((e['property_id'], e.get('tier'), n, e.get('wall_s')))
for r in rows:
    print("| %s | %s | %s | %.0f s |" % (r[0], r[1], r[2], r[3] or 0))
