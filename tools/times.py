#!/usr/bin/env python3
"""tools/times.py <export.json>... : per-harness status and solver seconds from Kani's JSON export (development aid)"""
import json, sys
for f in sys.argv[1:]:
    d = json.load(open(f))
    for r in d['verification_results']['results']:
        name = r.get('harness_id', r.get('harness', '?')).split('::')[-1]
        print("%-50s %-10s %8.1fs" % (name, r.get('status'), float(r.get('duration_ms', 0)) / 1000.0))
