#!/bin/bash
# tools/seed_confirm.sh <id> <prop> <diff> <demo.rs> [cargo-features] : confirm a seeded change in a scratch
# worktree: (1) suite passes with it, (2) demo fails with it, (3) demo passes without it.  Writes
# /verif/seeded/<id>/{patch.diff,demo.rs,confirm.log}; meta.json is written by tools/seed_meta.py.
set -u
id=$1; prop=$2; diff=$3; demo=$4; feats=${5:-}
wt=/tmp/seedconfirm/wt
export CARGO_TARGET_DIR=/tmp/seedconfirm/target CARGO_NET_OFFLINE=true
mkdir -p /tmp/seedconfirm /verif/seeded/$id
[ -d $wt ] || git -C /repo worktree add -q --detach $wt HEAD
git -C $wt checkout -q --detach $(git -C /repo rev-parse HEAD); git -C $wt checkout -q -- .; rm -rf $wt/tests
log=/verif/seeded/$id/confirm.log; : > $log
fa=""; [ -n "$feats" ] && fa="--features $feats"
cd $wt
mkdir -p tests; cp "$demo" tests/seed_demo.rs
cargo test --offline $fa --test seed_demo >> $log 2>&1; clean_demo=$?
git apply "$diff" || { echo "CONFIRM $id: patch does not apply"; exit 3; }
cargo test --offline $fa --test seed_demo >> $log 2>&1; mut_demo=$?
rm -rf tests
cargo test --workspace --offline >> $log 2>&1; suite=$?
if [ -n "$feats" ]; then cargo test --offline $fa --lib >> $log 2>&1; suite2=$?; else suite2=0; fi
git checkout -q -- .
cp "$diff" /verif/seeded/$id/patch.diff; cp "$demo" /verif/seeded/$id/demo.rs
echo "CONFIRM $id prop=$prop demo_on_clean=$clean_demo demo_on_mutant=$mut_demo suite_on_mutant=$suite feature_suite_on_mutant=$suite2" | tee -a $log
