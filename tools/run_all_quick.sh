#!/bin/bash
# tools/run_all_quick.sh : run every registered quick check against /repo, one after the other (rewrites evidence/)
cd /verif
for p in $(python3 -c "import json;print(' '.join(c['property_id'] for c in json.load(open('MANIFEST.json'))['checks']))"); do
  t0=$(date +%s); ./check $p --tier quick > .work/final-$p.log 2>&1; rc=$?
  echo "$p exit=$rc $(( $(date +%s) - t0 ))s $(tail -1 .work/final-$p.log | cut -c1-120)"
done
