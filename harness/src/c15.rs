//! C15 — limb-slice multiply, accumulate, add, subtract, shift and compare
//! kernels are exact.  Slice lengths are concrete per harness (const
//! generics); contents are FULL.  Multiplying kernels run under the UF layer
//! (uf.rs) and, separately, unstubbed on structurally narrow operands.

use crate::nd::Nd;
use crate::refm;
use crate::uf;
use core::cmp::Ordering;
use ruint::algorithms as alg;

#[inline(always)]
fn word<const N: usize>(x: u64) -> [u64; N] {
    let mut w = [0u64; N];
    if N > 0 {
        w[0] = x;
    }
    w
}

/// adc_n, sbb_n, add_nx1, cmp and the scalar helpers
pub fn addsub<const N: usize>(nd: &mut Nd) {
    let a: [u64; N] = nd.limbs();
    let b: [u64; N] = nd.limbs();
    let c = nd.u64();
    let cb = nd.bool();
    // adc_n: a + b + c = r + carry * 2^(64N)
    let mut r = a;
    let co = alg::adc_n(&mut r, &b, c);
    if N == 0 {
        chk!(nd, "C15.adc_n.empty", co == c);
    } else {
        let (s1, c1) = refm::add(&a, &b, false);
        let (s2, c2) = refm::add(&s1, &word::<N>(c), false);
        chk!(nd, "C15.adc_n.limbs", refm::eq(&r, &s2));
        chk!(nd, "C15.adc_n.carry", co == c1 as u64 + c2 as u64);
    }
    // sbb_n: a - b - c = r - borrow * 2^(64N)
    let mut r = a;
    let bo = alg::sbb_n(&mut r, &b, c);
    if N == 0 {
        chk!(nd, "C15.sbb_n.empty", bo == c);
    } else {
        let (d1, b1) = refm::sub(&a, &b, false);
        let (d2, b2) = refm::sub(&d1, &word::<N>(c), false);
        chk!(nd, "C15.sbb_n.limbs", refm::eq(&r, &d2));
        chk!(nd, "C15.sbb_n.borrow", bo == b1 as u64 + b2 as u64);
    }
    // add_nx1
    let mut r = a;
    let co = alg::add_nx1(&mut r, c);
    if N == 0 {
        chk!(nd, "C15.add_nx1.empty", co == c);
    } else {
        let (s, cy) = refm::add(&a, &word::<N>(c), false);
        chk!(nd, "C15.add_nx1.limbs", refm::eq(&r, &s));
        chk!(nd, "C15.add_nx1.carry", co == cy as u64);
    }
    // cmp on equal-length slices
    let want = match refm::cmp(&a, &b) {
        -1 => Ordering::Less,
        0 => Ordering::Equal,
        _ => Ordering::Greater,
    };
    chk!(nd, "C15.cmp", alg::cmp(&a, &b) == want);
    // scalar helpers (first limbs, or the carry word when N = 0)
    let (x, y) = if N > 0 { (a[0], b[0]) } else { (c, !c) };
    let t = x as u128 + y as u128 + c as u128;
    chk!(nd, "C15.adc", alg::adc(x, y, c) == (t as u64, (t >> 64) as u64));
    let t = (x as u128).wrapping_sub(y as u128).wrapping_sub(c as u128);
    chk!(nd, "C15.sbb", alg::sbb(x, y, c) == (t as u64, ((t >> 64) as u64).wrapping_neg()));
    let t = x as u128 + y as u128 + cb as u128;
    chk!(nd, "C15.carrying_add", alg::carrying_add(x, y, cb) == (t as u64, (t >> 64) != 0));
    let t = (x as u128).wrapping_sub(y as u128).wrapping_sub(cb as u128);
    chk!(nd, "C15.borrowing_sub", alg::borrowing_sub(x, y, cb) == (t as u64, (t >> 64) != 0));
}

/// shift_left_small / shift_right_small for amounts 1..=63
pub fn shifts<const N: usize>(nd: &mut Nd) {
    let a: [u64; N] = nd.limbs();
    let s = nd.u8() as usize;
    nd.assume(s >= 1 && s <= 63);
    let mut r = a;
    let out = alg::shift_left_small(&mut r, s);
    chk!(nd, "C15.shift_left_small.limbs", refm::eq(&r, &refm::shl(&a, s)));
    chk!(nd, "C15.shift_left_small.out", out == if N > 0 { a[N - 1] >> (64 - s) } else { 0 });
    let mut r = a;
    let out = alg::shift_right_small(&mut r, s);
    chk!(nd, "C15.shift_right_small.limbs", refm::eq(&r, &refm::shr(&a, s)));
    chk!(nd, "C15.shift_right_small.out", out == if N > 0 { a[0] << (64 - s) } else { 0 });
}

// ------------------------------------------------------------ UF multiply

/// mul_nx1, addmul_nx1, submul_nx1 (W = N + 1)
pub fn nx1_uf<const N: usize, const W: usize>(nd: &mut Nd) {
    let l: [u64; N] = nd.limbs();
    let a: [u64; N] = nd.limbs();
    let b = nd.u64();
    uf::declare_all(&l, &[b]);
    uf::declare_all(&a, &[b]);
    // mul_nx1: l * b
    let mut acc = [0u64; W];
    let _ = uf::school::<W>(&mut acc, &l, &[b]);
    let mut r = l;
    let carry = alg::mul_nx1(&mut r, b);
    let mut ok = true;
    let mut i = 0;
    while i < N {
        ok &= r[i] == acc[i];
        i += 1;
    }
    chk!(nd, "C15.mul_nx1.limbs", ok);
    chk!(nd, "C15.mul_nx1.carry", carry == acc[N]);
    // addmul_nx1: l + a * b
    let mut acc = [0u64; W];
    let mut i = 0;
    while i < N {
        acc[i] = l[i];
        i += 1;
    }
    let _ = uf::school::<W>(&mut acc, &a, &[b]);
    let mut r = l;
    let carry = alg::addmul_nx1(&mut r, &a, b);
    let mut ok = true;
    let mut i = 0;
    while i < N {
        ok &= r[i] == acc[i];
        i += 1;
    }
    chk!(nd, "C15.addmul_nx1.limbs", ok);
    chk!(nd, "C15.addmul_nx1.carry", carry == acc[N]);
    // submul_nx1: l - a * b = r - borrow * 2^(64N)
    let mut prod = [0u64; W];
    let _ = uf::school::<W>(&mut prod, &a, &[b]);
    let mut ext = [0u64; W];
    let mut i = 0;
    while i < N {
        ext[i] = l[i];
        i += 1;
    }
    let (d, _) = refm::sub(&ext, &prod, false);
    let mut r = l;
    let borrow = alg::submul_nx1(&mut r, &a, b);
    let mut ok = true;
    let mut i = 0;
    while i < N {
        ok &= r[i] == d[i];
        i += 1;
    }
    chk!(nd, "C15.submul_nx1.limbs", ok);
    chk!(nd, "C15.submul_nx1.borrow", borrow == d[N].wrapping_neg());
}

/// addmul with independent lengths; W = max(NL, NA + NB) + 1
pub fn addmul_uf<const NL: usize, const NA: usize, const NB: usize, const W: usize>(nd: &mut Nd) {
    let l: [u64; NL] = nd.limbs();
    let a: [u64; NA] = nd.limbs();
    let b: [u64; NB] = nd.limbs();
    uf::declare_all(&a, &b);
    let mut acc = [0u64; W];
    let mut i = 0;
    while i < NL {
        acc[i] = l[i];
        i += 1;
    }
    let lost = uf::school::<W>(&mut acc, &a, &b);
    let mut high = lost;
    let mut i = NL;
    while i < W {
        high |= acc[i] != 0;
        i += 1;
    }
    cov!(nd, "overflows", high);
    cov!(nd, "fits", !high);
    let mut r = l;
    let flag = alg::addmul(&mut r, &a, &b);
    let mut ok = true;
    let mut i = 0;
    while i < NL {
        ok &= r[i] == acc[i];
        i += 1;
    }
    chk!(nd, "C15.addmul.limbs", ok);
    chk!(nd, "C15.addmul.flag", flag == high);
}

/// addmul_n (equal lengths, wrapping); W = 2N + 1
pub fn addmul_n_uf<const N: usize, const W: usize>(nd: &mut Nd) {
    let l: [u64; N] = nd.limbs();
    let a: [u64; N] = nd.limbs();
    let b: [u64; N] = nd.limbs();
    uf::declare_all(&a, &b);
    let mut acc = [0u64; W];
    let mut i = 0;
    while i < N {
        acc[i] = l[i];
        i += 1;
    }
    let _ = uf::school::<W>(&mut acc, &a, &b);
    let mut r = l;
    alg::addmul_n(&mut r, &a, &b);
    let mut ok = true;
    let mut i = 0;
    while i < N {
        ok &= r[i] == acc[i];
        i += 1;
    }
    chk!(nd, "C15.addmul_n.limbs", ok);
}

// ------------------------------------------------ real DoubleWord bodies

/// mul_nx1 / addmul_nx1 / submul_nx1 unstubbed on FULL operands.  The oracle
/// forms each limb product with the native `u128` multiplication on the same
/// operands in the same order, so the SAT back end shares the multiplier
/// circuit: this decides the kernels *and* the three `DoubleWord` multiply
/// bodies (carry words, `+ c + d`) relative to Rust's `*`, which is trusted.
pub fn nx1_real<const N: usize, const W: usize>(nd: &mut Nd) {
    let a: [u64; N] = nd.limbs();
    let l: [u64; N] = nd.limbs();
    let b = nd.u64();
    let mut prod = [0u64; W];
    let mut i = 0;
    while i < N {
        let _ = uf::add_at::<W>(&mut prod, u128::from(a[i]) * u128::from(b), i);
        i += 1;
    }
    let mut lw = [0u64; W];
    let mut i = 0;
    while i < N {
        lw[i] = l[i];
        i += 1;
    }
    let (sum, _) = refm::add(&prod, &lw, false);
    let (dif, _) = refm::sub(&lw, &prod, false);
    let mut r = a;
    let c = alg::mul_nx1(&mut r, b);
    let mut ok = c == prod[N];
    let mut i = 0;
    while i < N {
        ok &= r[i] == prod[i];
        i += 1;
    }
    chk!(nd, "C15.real.mul_nx1", ok);
    let mut r = l;
    let c = alg::addmul_nx1(&mut r, &a, b);
    let mut ok = c == sum[N];
    let mut i = 0;
    while i < N {
        ok &= r[i] == sum[i];
        i += 1;
    }
    chk!(nd, "C15.real.addmul_nx1", ok);
    let mut r = l;
    let c = alg::submul_nx1(&mut r, &a, b);
    let mut ok = c == dif[N].wrapping_neg();
    let mut i = 0;
    while i < N {
        ok &= r[i] == dif[i];
        i += 1;
    }
    chk!(nd, "C15.real.submul_nx1", ok);
}

/// addmul on the "unit-limb" sub-domain: every limb of `a` is 0 or 1 (one free bit), `b` and the accumulator are FULL,
/// one harness per operand order (SWAP).  The DoubleWord bodies are stubbed by the UF table as in `addmul_uf`, but on this sub-domain
/// every product is fixed by the axioms 0*x = 0 and 1*x = x, so the abstraction is EXACT: a counterexample is a real one
/// and reproduces natively (the FULL-domain UF harnesses also cover products of large limbs, but their counterexamples
/// live in the abstraction and need not reproduce).  Real multipliers on a 2-bit operand were probed instead: the
/// 128-bit product circuits cost 6-12 GB per harness.
pub fn addmul_unit<const NL: usize, const NA: usize, const NB: usize, const W: usize, const SWAP: usize>(nd: &mut Nd) {
    let l: [u64; NL] = nd.limbs();
    let mut a = [0u64; NA];
    let mut i = 0;
    while i < NA {
        a[i] = (nd.u8() & 1) as u64;
        i += 1;
    }
    let b: [u64; NB] = nd.limbs();
    let swap = SWAP != 0;
    let mut acc = [0u64; W];
    let mut i = 0;
    while i < NL {
        acc[i] = l[i];
        i += 1;
    }
    let lost = uf::school::<W>(&mut acc, &a, &b);
    let mut high = lost;
    let mut i = NL;
    while i < W {
        high |= acc[i] != 0;
        i += 1;
    }
    cov!(nd, "overflows", high);
    cov!(nd, "fits", !high);
    let mut r = l;
    // either operand order (addmul takes the shorter one as the outer loop and trims both)
    let flag = if swap { alg::addmul(&mut r, &b, &a) } else { alg::addmul(&mut r, &a, &b) };
    let mut ok = true;
    let mut i = 0;
    while i < NL {
        ok &= r[i] == acc[i];
        i += 1;
    }
    chk!(nd, "C15.addmul.limbs", ok);
    chk!(nd, "C15.addmul.flag", flag == high);
}
