//! C17 — decoders are total on untrusted input: no panic, no out-of-range
//! value.  Input = `[u8; NX]` arbitrary + symbolic length `len <= NX`.
//! "No panic" is decided by Kani's own checks on every reachable panic,
//! index, slice, overflow and unwrap site of the decode path.

use crate::nd::Nd;
use crate::refm;
use ruint::Uint;

/// big-endian value of `p[..n]` reduced into L limbs, plus "does not fit B bits"
#[inline(always)]
fn be_value<const L: usize, const NX: usize>(bits: usize, p: &[u8; NX], start: usize, n: usize) -> ([u64; L], bool) {
    let mut lim = [0u64; L];
    let mut over = false;
    let mut k = 0;
    while k < NX {
        // k-th least significant byte of the payload
        if k < n {
            let byte = p[start + n - 1 - k];
            if k < 8 * L {
                lim[k / 8] |= (byte as u64) << (8 * (k % 8));
            } else {
                over |= byte != 0;
            }
        }
        k += 1;
    }
    over |= !refm::canonical(&lim, bits);
    (lim, over)
}

/// little-endian value of `p[start..start+n]`
#[inline(always)]
fn le_value<const L: usize, const NX: usize>(bits: usize, p: &[u8; NX], start: usize, n: usize) -> ([u64; L], bool) {
    let mut lim = [0u64; L];
    let mut over = false;
    let mut k = 0;
    while k < NX {
        if k < n {
            let byte = p[start + k];
            if k < 8 * L {
                lim[k / 8] |= (byte as u64) << (8 * (k % 8));
            } else {
                over |= byte != 0;
            }
        }
        k += 1;
    }
    over |= !refm::canonical(&lim, bits);
    (lim, over)
}

macro_rules! rlp_canonical {
    ($name:ident, $krate:ident, $l1:literal, $l2:literal, $l3:literal, $l4:literal) => {
        /// canonical-form RLP decoder: Ok(v) => v canonical and re-encoding v
        /// reproduces exactly the bytes consumed
        pub fn $name<const B: usize, const L: usize, const NX: usize>(nd: &mut Nd) {
            use $krate::{Decodable, Encodable};
            let b: [u8; NX] = nd.bytes();
            let len = nd.upto(NX);
            let k = nd.upto(NX);
            let mut view: &[u8] = &b[..len];
            let r = <Uint<B, L> as Decodable>::decode(&mut view);
            let rest = view.len();
            cov!(nd, "accepts", r.is_ok());
            cov!(nd, "rejects", r.is_err());
            match r {
                Ok(v) => {
                    chk!(nd, $l1, refm::canonical(v.as_limbs(), B));
                    chk!(nd, $l2, rest <= len);
                    let consumed = len - rest;
                    let mut out = Vec::new();
                    v.encode(&mut out);
                    chk!(nd, $l3, out.len() == consumed);
                    if k < consumed && k < out.len() {
                        chk!(nd, $l4, out[k] == b[k]);
                    }
                    core::mem::forget(out);
                }
                Err(e) => core::mem::forget(e),
            }
        }
    };
}

rlp_canonical!(alloy_rlp, alloy_rlp, "C17.alloy_rlp.canonical_value", "C17.alloy_rlp.consumed",
    "C17.alloy_rlp.reencode_len", "C17.alloy_rlp.reencode_byte");
rlp_canonical!(fastrlp_03, fastrlp_03, "C17.fastrlp_03.canonical_value", "C17.fastrlp_03.consumed",
    "C17.fastrlp_03.reencode_len", "C17.fastrlp_03.reencode_byte");
rlp_canonical!(fastrlp_04, fastrlp_04, "C17.fastrlp_04.canonical_value", "C17.fastrlp_04.consumed",
    "C17.fastrlp_04.reencode_len", "C17.fastrlp_04.reencode_byte");

/// parity `rlp` crate (does not enforce minimal form): Ok(v) => v is the
/// big-endian value of the payload, for single-byte and short-string headers
pub fn rlp<const B: usize, const L: usize, const NX: usize>(nd: &mut Nd) {
    let b: [u8; NX] = nd.bytes();
    let len = nd.upto(NX);
    let k = nd.upto(L);
    let r = rlp::decode::<Uint<B, L>>(&b[..len]);
    cov!(nd, "accepts", r.is_ok());
    match r {
        Ok(v) => {
            chk!(nd, "C17.rlp.canonical_value", refm::canonical(v.as_limbs(), B));
            chk!(nd, "C17.rlp.nonempty", len >= 1);
            if len >= 1 {
                let b0 = b[0];
                if b0 < 0x80 {
                    let (w, over) = be_value::<L, NX>(B, &b, 0, 1);
                    chk!(nd, "C17.rlp.single_byte", !over && (k >= L || v.as_limbs()[k] == w[k]));
                } else if b0 <= 0xb7 {
                    let n = (b0 - 0x80) as usize;
                    chk!(nd, "C17.rlp.truncated_accepted", 1 + n <= len);
                    if 1 + n <= len {
                        let (w, over) = be_value::<L, NX>(B, &b, 1, n);
                        chk!(nd, "C17.rlp.short_string", !over && (k >= L || v.as_limbs()[k] == w[k]));
                    }
                } else {
                    chk!(nd, "C17.rlp.list_or_long_header_accepted", b0 <= 0xbf);
                }
            }
        }
        Err(e) => core::mem::forget(e),
    }
}

/// SSZ: fixed-length little-endian; Ok(v) iff len == BYTES and value < 2^B
pub fn ssz<const B: usize, const L: usize, const NB: usize, const NX: usize>(nd: &mut Nd) {
    use ssz::Decode;
    let b: [u8; NX] = nd.bytes();
    let len = nd.upto(NX);
    let k = nd.upto(L);
    let r = <Uint<B, L> as Decode>::from_ssz_bytes(&b[..len]);
    let (w, over) = le_value::<L, NX>(B, &b, 0, if len <= NB { len } else { 0 });
    cov!(nd, "accepts", r.is_ok());
    match r {
        Ok(v) => {
            chk!(nd, "C17.ssz.canonical_value", refm::canonical(v.as_limbs(), B));
            chk!(nd, "C17.ssz.wrong_length_accepted", len == NB);
            chk!(nd, "C17.ssz.value", len > NB || (!over && (k >= L || v.as_limbs()[k] == w[k])));
        }
        Err(e) => {
            chk!(nd, "C17.ssz.valid_rejected", len != NB || over);
            core::mem::forget(e);
        }
    }
}

/// borsh: reads exactly BYTES little-endian bytes
pub fn borsh<const B: usize, const L: usize, const NB: usize, const NX: usize>(nd: &mut Nd) {
    use borsh::BorshDeserialize;
    let b: [u8; NX] = nd.bytes();
    let len = nd.upto(NX);
    let k = nd.upto(L);
    let mut view: &[u8] = &b[..len];
    let r = <Uint<B, L> as BorshDeserialize>::deserialize(&mut view);
    let (w, over) = le_value::<L, NX>(B, &b, 0, if len >= NB { NB } else { 0 });
    cov!(nd, "accepts", r.is_ok());
    match r {
        Ok(v) => {
            chk!(nd, "C17.borsh.canonical_value", refm::canonical(v.as_limbs(), B));
            chk!(nd, "C17.borsh.truncated_accepted", len >= NB);
            chk!(nd, "C17.borsh.value", len < NB || (!over && (k >= L || v.as_limbs()[k] == w[k])));
            chk!(nd, "C17.borsh.consumed", view.len() + NB == len);
        }
        Err(e) => {
            chk!(nd, "C17.borsh.valid_rejected", len < NB || over);
            core::mem::forget(e);
        }
    }
}

/// SCALE fixed form = compact length prefix + little-endian bytes
pub fn scale_fixed<const B: usize, const L: usize, const NB: usize, const NX: usize>(nd: &mut Nd) {
    use parity_scale_codec::Decode;
    let b: [u8; NX] = nd.bytes();
    let len = nd.upto(NX);
    let k = nd.upto(L);
    let mut view: &[u8] = &b[..len];
    let r = <Uint<B, L> as Decode>::decode(&mut view);
    cov!(nd, "accepts", r.is_ok());
    match r {
        Ok(v) => {
            chk!(nd, "C17.scale.canonical_value", refm::canonical(v.as_limbs(), B));
            chk!(nd, "C17.scale.nonempty", len >= 1);
            if len >= 1 && b[0] & 3 == 0 {
                let n = (b[0] >> 2) as usize;
                chk!(nd, "C17.scale.truncated_accepted", 1 + n <= len);
                if 1 + n <= len {
                    let (w, over) = le_value::<L, NX>(B, &b, 1, n);
                    chk!(nd, "C17.scale.value", n <= NB && !over && (k >= L || v.as_limbs()[k] == w[k]));
                }
            } else {
                // longer length-prefix modes need >= 64 payload bytes: outside this harness' input bound
                chk!(nd, "C17.scale.long_prefix_accepted_on_short_input", false);
            }
        }
        Err(e) => core::mem::forget(e),
    }
}

/// SCALE compact form: Ok(v) => v is the value denoted by the mode
pub fn scale_compact<const B: usize, const L: usize, const NX: usize>(nd: &mut Nd) {
    use parity_scale_codec::{Decode, HasCompact};
    let b: [u8; NX] = nd.bytes();
    let len = nd.upto(NX);
    let k = nd.upto(L);
    let mut view: &[u8] = &b[..len];
    let r = <<Uint<B, L> as HasCompact>::Type as Decode>::decode(&mut view);
    cov!(nd, "accepts", r.is_ok());
    match r {
        Ok(c) => {
            let v: Uint<B, L> = c.into();
            chk!(nd, "C17.compact.canonical_value", refm::canonical(v.as_limbs(), B));
            chk!(nd, "C17.compact.nonempty", len >= 1);
            if len >= 1 {
                let mode = b[0] & 3;
                // value = little-endian integer of the mode's bytes, shifted right by 2 for modes 0..2
                let (start, n, shift) = match mode {
                    0 => (0usize, 1usize, true),
                    1 => (0, 2, true),
                    2 => (0, 4, true),
                    _ => (1, (b[0] >> 2) as usize + 4, false),
                };
                chk!(nd, "C17.compact.truncated_accepted", start + n <= len);
                if start + n <= len {
                    // reference in 2 limbs more than needed is unnecessary: modes 0..2 fit 32 bits
                    if shift {
                        let mut x: u32 = 0;
                        let mut j = 0;
                        while j < 4 {
                            if j < n {
                                x |= (b[j] as u32) << (8 * j);
                            }
                            j += 1;
                        }
                        let x = (x >> 2) as u64;
                        let fits = B >= 32 || (x >> B) == 0;
                        let mut w = [0u64; L];
                        if L > 0 {
                            w[0] = x;
                        }
                        chk!(nd, "C17.compact.small_mode_value", fits && (k >= L || v.as_limbs()[k] == w[k]));
                    } else {
                        let (w, over) = le_value::<L, NX>(B, &b, 1, n);
                        chk!(nd, "C17.compact.big_mode_value", !over && (k >= L || v.as_limbs()[k] == w[k]));
                    }
                }
            }
        }
        Err(e) => core::mem::forget(e),
    }
}

/// DER INTEGER through `from_der`: Ok(v) => the input is exactly the canonical
/// TLV `02 len payload` (short-form length, minimal non-negative payload) and
/// v is the payload's big-endian value - i.e. re-encoding reproduces the input
pub fn der<const B: usize, const L: usize, const NX: usize>(nd: &mut Nd) {
    use der::Decode;
    let b: [u8; NX] = nd.bytes();
    let len = nd.upto(NX);
    let k = nd.upto(L);
    let r = <Uint<B, L> as Decode>::from_der(&b[..len]);
    cov!(nd, "accepts", r.is_ok());
    match r {
        Ok(v) => {
            chk!(nd, "C17.der.canonical_value", refm::canonical(v.as_limbs(), B));
            chk!(nd, "C17.der.tlv_shape", len >= 3 && b[0] == 0x02 && b[1] < 0x80 && b[1] as usize == len - 2);
            if len >= 3 && b[1] as usize == len - 2 {
                let n = len - 2;
                chk!(nd, "C17.der.negative_accepted", b[2] < 0x80);
                chk!(nd, "C17.der.non_minimal_accepted", !(n > 1 && b[2] == 0 && b[3] < 0x80));
                let (w, over) = be_value::<L, NX>(B, &b, 2, n);
                chk!(nd, "C17.der.value", !over && (k >= L || v.as_limbs()[k] == w[k]));
            }
        }
        Err(e) => core::mem::forget(e),
    }
}

/// DER INTEGER contents through ruint's `DecodeValue::decode_value` with a
/// pre-built header (the der crate's own TLV header parser is outside reach):
/// Ok(v) => payload is the minimal non-negative form and v its value
pub fn der_value<const B: usize, const L: usize, const NX: usize>(nd: &mut Nd) {
    use der::{DecodeValue, Header, Length, SliceReader, Tag};
    let b: [u8; NX] = nd.bytes();
    let len = nd.upto(NX);
    let k = nd.upto(L);
    let (Ok(mut reader), Ok(length)) = (SliceReader::new(&b[..len]), Length::try_from(len)) else {
        return;
    };
    let Ok(header) = Header::new(Tag::Integer, length) else {
        return;
    };
    let r = <Uint<B, L> as DecodeValue>::decode_value(&mut reader, header);
    cov!(nd, "accepts", r.is_ok());
    match r {
        Ok(v) => {
            chk!(nd, "C17.der.canonical_value", refm::canonical(v.as_limbs(), B));
            chk!(nd, "C17.der.empty_accepted", len >= 1);
            if len >= 1 {
                chk!(nd, "C17.der.negative_accepted", b[0] < 0x80);
                chk!(nd, "C17.der.non_minimal_accepted", !(len > 1 && b[0] == 0 && b[1] < 0x80));
                let (w, over) = be_value::<L, NX>(B, &b, 0, len);
                chk!(nd, "C17.der.value", !over && (k >= L || v.as_limbs()[k] == w[k]));
            }
        }
        Err(e) => core::mem::forget(e),
    }
}

/// DER value bytes through IntRef / UintRef: Ok(v) => v is the denoted value
pub fn der_refs<const B: usize, const L: usize, const NX: usize>(nd: &mut Nd) {
    use der::asn1::{IntRef, UintRef};
    let b: [u8; NX] = nd.bytes();
    let len = nd.upto(NX);
    let k = nd.upto(L);
    let which = nd.bool();
    if which {
        if let Ok(i) = IntRef::new(&b[..len]) {
            let raw = i.as_bytes();
            let n = raw.len();
            if let Ok(v) = Uint::<B, L>::try_from(i) {
                chk!(nd, "C17.der_intref.canonical_value", refm::canonical(v.as_limbs(), B));
                // IntRef keeps the bytes as given (minus nothing): the value is their big-endian reading
                if n <= NX {
                    let start = len - n;
                    let (w, over) = be_value::<L, NX>(B, &b, start, n);
                    chk!(nd, "C17.der_intref.value", !over && (k >= L || v.as_limbs()[k] == w[k]));
                    chk!(nd, "C17.der_intref.negative_accepted", n == 0 || b[start] < 0x80);
                }
            }
        }
    } else if let Ok(u) = UintRef::new(&b[..len]) {
        let raw = u.as_bytes();
        let n = raw.len();
        if let Ok(v) = Uint::<B, L>::try_from(u) {
            chk!(nd, "C17.der_uintref.canonical_value", refm::canonical(v.as_limbs(), B));
            if n <= len {
                let start = len - n;
                let (w, over) = be_value::<L, NX>(B, &b, start, n);
                chk!(nd, "C17.der_uintref.value", !over && (k >= L || v.as_limbs()[k] == w[k]));
            }
        }
    }
}

// ------------------------------------------------------------------ serde

pub mod mini_serde {
    //! The smallest Deserializer that can drive ruint's visitors.
    use serde::de::{self, Deserializer, Visitor};

    #[derive(Debug)]
    pub struct Er;
    impl core::fmt::Display for Er {
        fn fmt(&self, _: &mut core::fmt::Formatter<'_>) -> core::fmt::Result {
            Ok(())
        }
    }
    impl std::error::Error for Er {}
    impl de::Error for Er {
        fn custom<T: core::fmt::Display>(_msg: T) -> Self {
            Er
        }
        fn invalid_value(_: de::Unexpected, _: &dyn de::Expected) -> Self {
            Er
        }
        fn invalid_length(_: usize, _: &dyn de::Expected) -> Self {
            Er
        }
        fn invalid_type(_: de::Unexpected, _: &dyn de::Expected) -> Self {
            Er
        }
    }

    pub enum Tok<'a> {
        Bytes(&'a [u8]),
        U64(u64),
        U128(u128),
        Str(&'a str),
    }

    pub struct De<'a> {
        pub tok: Tok<'a>,
    }

    impl<'de, 'a> Deserializer<'de> for De<'a> {
        type Error = Er;
        fn is_human_readable(&self) -> bool {
            !matches!(self.tok, Tok::Bytes(_))
        }
        fn deserialize_any<V: Visitor<'de>>(self, v: V) -> Result<V::Value, Er> {
            match self.tok {
                Tok::Bytes(b) => v.visit_bytes(b),
                Tok::U64(x) => v.visit_u64(x),
                Tok::U128(x) => v.visit_u128(x),
                Tok::Str(s) => v.visit_str(s),
            }
        }
        fn deserialize_bytes<V: Visitor<'de>>(self, v: V) -> Result<V::Value, Er> {
            self.deserialize_any(v)
        }
        serde::forward_to_deserialize_any! {
            bool i8 i16 i32 i64 i128 u8 u16 u32 u64 u128 f32 f64 char str string byte_buf option unit
            unit_struct newtype_struct seq tuple tuple_struct map struct enum identifier ignored_any
        }
    }
}

/// serde binary visitor: Ok(v) iff len == BYTES and big-endian value < 2^B
pub fn serde_bytes<const B: usize, const L: usize, const NB: usize, const NX: usize>(nd: &mut Nd) {
    use serde::Deserialize;
    let b: [u8; NX] = nd.bytes();
    let len = nd.upto(NX);
    let k = nd.upto(L);
    let r = Uint::<B, L>::deserialize(mini_serde::De { tok: mini_serde::Tok::Bytes(&b[..len]) });
    let (w, over) = be_value::<L, NX>(B, &b, 0, if len == NB { NB } else { 0 });
    cov!(nd, "accepts", r.is_ok());
    match r {
        Ok(v) => {
            chk!(nd, "C17.serde_bytes.canonical_value", refm::canonical(v.as_limbs(), B));
            chk!(nd, "C17.serde_bytes.wrong_length_accepted", len == NB);
            chk!(nd, "C17.serde_bytes.value", len != NB || (!over && (k >= L || v.as_limbs()[k] == w[k])));
        }
        Err(_) => chk!(nd, "C17.serde_bytes.valid_rejected", len != NB || over),
    }
}

/// serde human-readable visitors for integers
pub fn serde_ints<const B: usize, const L: usize>(nd: &mut Nd) {
    use serde::Deserialize;
    let x = nd.u128();
    let narrow = nd.bool();
    // keep the token variant constant per call: a merged (symbolic) discriminant would drag the
    // string visitor and `from_str` on an unconstrained pointer into the formula
    let r = if narrow {
        Uint::<B, L>::deserialize(mini_serde::De { tok: mini_serde::Tok::U64(x as u64) })
    } else {
        Uint::<B, L>::deserialize(mini_serde::De { tok: mini_serde::Tok::U128(x) })
    };
    let x = if narrow { x as u64 as u128 } else { x };
    let fits = B >= 128 || (x >> B) == 0;
    match r {
        Ok(v) => {
            let mut w = [0u64; L];
            if L > 0 {
                w[0] = x as u64;
            }
            if L > 1 {
                w[1] = (x >> 64) as u64;
            }
            chk!(nd, "C17.serde_int.value", fits && refm::eq(v.as_limbs(), &w));
        }
        Err(_) => chk!(nd, "C17.serde_int.valid_rejected", !fits),
    }
}

// --------------------------------------------------------------- postgres

pub mod pg {
    use super::*;
    use postgres_types::{FromSql, Type};

    #[inline(always)]
    fn ty(code: usize) -> Type {
        match code {
            0 => Type::BOOL,
            1 => Type::INT2,
            2 => Type::INT4,
            3 => Type::INT8,
            4 => Type::OID,
            5 => Type::MONEY,
            6 => Type::BYTEA,
            7 => Type::BIT,
            8 => Type::VARBIT,
            9 => Type::NUMERIC,
            10 => Type::FLOAT4,
            11 => Type::FLOAT8,
            12 => Type::TEXT,
            13 => Type::VARCHAR,
            14 => Type::CHAR,
            15 => Type::JSON,
            _ => Type::JSONB,
        }
    }

    /// integer of a fixed-width big-endian field, sign-extended to i128
    #[inline(always)]
    fn be_int<const NX: usize>(b: &[u8; NX], n: usize, signed: bool) -> i128 {
        let mut x: u128 = 0;
        let mut j = 0;
        while j < 8 {
            if j < n {
                x = (x << 8) | b[j] as u128;
            }
            j += 1;
        }
        if signed && n > 0 && b[0] >= 0x80 {
            (x as i128) - (1i128 << (8 * n))
        } else {
            x as i128
        }
    }

    /// from_sql for one binary column type `T`, raw input of symbolic length
    pub fn from_sql<const B: usize, const L: usize, const NX: usize, const T: usize>(nd: &mut Nd) {
        let b: [u8; NX] = nd.bytes();
        let len = nd.upto(NX);
        let k = nd.upto(L);
        let t = ty(T);
        let r = <Uint<B, L> as FromSql>::from_sql(&t, &b[..len]);
        cov!(nd, "accepts", r.is_ok());
        cov!(nd, "rejects", r.is_err());
        match r {
            Ok(v) => {
                chk!(nd, "C17.pg.canonical_value", refm::canonical(v.as_limbs(), B));
                let lv = *v.as_limbs();
                let lo: u128 = (if L > 0 { lv[0] as u128 } else { 0 }) | (if L > 1 { (lv[1] as u128) << 64 } else { 0 });
                let small = refm::bit_len(&lv) <= 127;
                match T {
                    0 => chk!(nd, "C17.pg.bool", len == 1 && b[0] <= 1 && small && lo == b[0] as u128),
                    1 | 2 | 3 | 4 => {
                        let n = match T {
                            1 => 2,
                            2 | 4 => 4,
                            _ => 8,
                        };
                        let x = be_int::<NX>(&b, n, T != 4);
                        chk!(nd, "C17.pg.int", len == n && x >= 0 && small && lo as i128 == x);
                    }
                    5 => {
                        let x = be_int::<NX>(&b, 8, true);
                        chk!(nd, "C17.pg.money", len == 8 && x > -100 && small && lo as i128 == x / 100);
                    }
                    6 => {
                        let (w, over) = be_value::<L, NX>(B, &b, 0, len);
                        chk!(nd, "C17.pg.bytea", !over && (k >= L || lv[k] == w[k]));
                    }
                    7 | 8 => {
                        chk!(nd, "C17.pg.bit.header", len >= 4);
                        if len >= 4 {
                            let nbits = be_int::<NX>(&b, 4, true);
                            chk!(nd, "C17.pg.bit.negative_length", nbits >= 0);
                            if nbits >= 0 {
                                let nbits = nbits as usize;
                                let pay = len - 4;
                                chk!(nd, "C17.pg.bit.payload_length", pay == (nbits + 7) / 8);
                                if pay == (nbits + 7) / 8 {
                                    // value = big-endian payload >> padding
                                    let padding = (8 - nbits % 8) % 8;
                                    let (w, over) = be_value::<L, NX>(64 * L, &b, 4, pay);
                                    let w = refm::shr(&w, padding);
                                    // bits above 64*L would have been lost in `w`: `over` reports them
                                    chk!(nd, "C17.pg.bit.value",
                                        !over && refm::canonical(&w, B) && (k >= L || lv[k] == w[k]));
                                }
                            }
                        }
                    }
                    _ => {}
                }
            }
            Err(e) => core::mem::forget(e),
        }
        core::mem::forget(t);
    }

    /// NUMERIC: header (ndigits, weight, sign, dscale) + base-10000 digits
    pub fn numeric<const B: usize, const L: usize, const NX: usize>(nd: &mut Nd) {
        let b: [u8; NX] = nd.bytes();
        let len = nd.upto(NX);
        let t = Type::NUMERIC;
        let r = <Uint<B, L> as FromSql>::from_sql(&t, &b[..len]);
        cov!(nd, "accepts", r.is_ok());
        match r {
            Ok(v) => {
                chk!(nd, "C17.pg.numeric.canonical_value", refm::canonical(v.as_limbs(), B));
                chk!(nd, "C17.pg.numeric.header", len >= 8);
            }
            Err(e) => core::mem::forget(e),
        }
        core::mem::forget(t);
    }

    /// text column types: tiny inputs only (UTF-8 validation + from_str)
    pub fn text<const B: usize, const L: usize, const NX: usize, const T: usize>(nd: &mut Nd) {
        let b: [u8; NX] = nd.bytes();
        let len = nd.upto(NX);
        let t = ty(T);
        let r = <Uint<B, L> as FromSql>::from_sql(&t, &b[..len]);
        match r {
            Ok(v) => chk!(nd, "C17.pg.text.canonical_value", refm::canonical(v.as_limbs(), B)),
            Err(e) => core::mem::forget(e),
        }
        core::mem::forget(t);
    }
}
