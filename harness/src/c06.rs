//! C06 — bitwise logic, bit access and bit counting agree with the binary
//! expansion.

use crate::nd::Nd;
use crate::refm;
use ruint::Uint;

macro_rules! bitres {
    ($nd:expr, $label:literal, $B:expr, $r:expr, $i:expr, $want:expr) => {{
        let rl = *$r.as_limbs();
        chk!($nd, $label, refm::canonical(&rl, $B) && ($i >= $B || refm::bit(&rl, $i) == $want));
    }};
}

/// ! & | ^ in every operator shape, one symbolic bit position
pub fn logic<const B: usize, const L: usize>(nd: &mut Nd) {
    let a: Uint<B, L> = nd.uint();
    let b: Uint<B, L> = nd.uint();
    let i = nd.upto(B);
    let (x, y) = (refm::bit(a.as_limbs(), i), refm::bit(b.as_limbs(), i));
    bitres!(nd, "C06.not.method", B, a.not(), i, !x);
    bitres!(nd, "C06.not.op_value", B, !a, i, !x);
    bitres!(nd, "C06.not.op_ref", B, !&a, i, !x);
    macro_rules! shapes {
        ($op:tt, $opa:tt, $want:expr, $l1:literal, $l2:literal, $l3:literal, $l4:literal, $l5:literal, $l6:literal) => {{
            bitres!(nd, $l1, B, a $op b, i, $want);
            bitres!(nd, $l2, B, a $op &b, i, $want);
            bitres!(nd, $l3, B, &a $op b, i, $want);
            bitres!(nd, $l4, B, &a $op &b, i, $want);
            let mut r = a;
            r $opa b;
            bitres!(nd, $l5, B, r, i, $want);
            let mut r = a;
            r $opa &b;
            bitres!(nd, $l6, B, r, i, $want);
        }};
    }
    shapes!(&, &=, x & y, "C06.and.vv", "C06.and.vr", "C06.and.rv", "C06.and.rr", "C06.and_assign.v", "C06.and_assign.r");
    shapes!(|, |=, x | y, "C06.or.vv", "C06.or.vr", "C06.or.rv", "C06.or.rr", "C06.or_assign.v", "C06.or_assign.r");
    shapes!(^, ^=, x ^ y, "C06.xor.vv", "C06.xor.vr", "C06.xor.rv", "C06.xor.rr", "C06.xor_assign.v", "C06.xor_assign.r");
}

/// bit / set_bit / checked_byte / byte (in range) with arbitrary indices
pub fn access<const B: usize, const L: usize, const NB: usize>(nd: &mut Nd) {
    let a: Uint<B, L> = nd.uint();
    let i = nd.usize();
    let j = nd.usize();
    let v = nd.bool();
    let la = *a.as_limbs();
    cov!(nd, "index-out-of-range", i >= B);
    cov!(nd, "index-in-range", i < B);
    chk!(nd, "C06.bit.read", a.bit(i) == (i < B && refm::bit(&la, i)));
    let mut w = a;
    w.set_bit(i, v);
    let lw = *w.as_limbs();
    chk!(nd, "C06.set_bit.canonical", refm::canonical(&lw, B));
    if j < 64 * L {
        let want = if j == i && i < B { v } else { refm::bit(&la, j) };
        chk!(nd, "C06.set_bit.frame", refm::bit(&lw, j) == want);
    }
    match a.checked_byte(i) {
        Some(x) => chk!(nd, "C06.checked_byte.some", i < NB && x == refm::byte(&la, i)),
        None => chk!(nd, "C06.checked_byte.none", i >= NB),
    }
    if i < NB {
        chk!(nd, "C06.byte.read", a.byte(i) == refm::byte(&la, i));
    }
}

/// byte(i) panics for i >= BYTES (never returns)
pub fn byte_oob_panics<const B: usize, const L: usize, const NB: usize>(nd: &mut Nd) {
    let a: Uint<B, L> = nd.uint();
    let i = nd.usize();
    nd.assume(i >= NB);
    cov!(nd, "before-call", true);
    let _ = a.byte(i);
    cov!(nd, "returned", true);
}

/// counting functions characterised by the positions of set bits
pub fn count<const B: usize, const L: usize>(nd: &mut Nd) {
    let a: Uint<B, L> = nd.uint();
    let j = nd.upto(B);
    let la = *a.as_limbs();
    let n = refm::bit_len(&la);
    let pc = refm::popcount(&la);
    chk!(nd, "C06.leading_zeros", a.leading_zeros() == B - n);
    chk!(nd, "C06.bit_len", a.bit_len() == n);
    chk!(nd, "C06.byte_len", a.byte_len() == (n + 7) / 8);
    let tz = a.trailing_zeros();
    chk!(nd, "C06.trailing_zeros", tz == if refm::is_zero(&la) { B } else { refm::trailing_zeros(&la) });
    chk!(nd, "C06.count_ones", a.count_ones() == pc);
    chk!(nd, "C06.count_zeros", a.count_zeros() == B - pc);
    chk!(nd, "C06.is_power_of_two", a.is_power_of_two() == (pc == 1));
    // leading_ones = k: bits B-1 .. B-k are set and bit B-k-1 (if any) is clear
    let lo = a.leading_ones();
    chk!(nd, "C06.leading_ones.range", lo <= B);
    if lo <= B {
        if j < B && j >= B - lo {
            chk!(nd, "C06.leading_ones.all_set", refm::bit(&la, j));
        }
        if lo < B {
            chk!(nd, "C06.leading_ones.stops", !refm::bit(&la, B - lo - 1));
        }
    }
    // trailing_ones = k: bits 0 .. k-1 set and bit k (if any) clear
    let to = a.trailing_ones();
    chk!(nd, "C06.trailing_ones.range", to <= B);
    if to <= B {
        if j < to {
            chk!(nd, "C06.trailing_ones.all_set", refm::bit(&la, j));
        }
        if to < B {
            chk!(nd, "C06.trailing_ones.stops", !refm::bit(&la, to));
        }
    }
    // trailing_zeros again, positionally (independent of u64::trailing_zeros)
    if tz <= B {
        if j < tz {
            chk!(nd, "C06.trailing_zeros.all_clear", !refm::bit(&la, j));
        }
        if tz < B {
            chk!(nd, "C06.trailing_zeros.stops", refm::bit(&la, tz));
        }
    }
}

#[inline(always)]
fn next_pow2<const L: usize>(bits: usize, la: &[u64; L]) -> Option<[u64; L]> {
    let n = refm::bit_len(la);
    if refm::popcount(la) == 1 {
        Some(*la)
    } else if n >= bits {
        None
    } else {
        let mut one = [0u64; L];
        one[0] = 1;
        Some(refm::shl(&one, n))
    }
}

/// reverse_bits, most_significant_bits, checked_next_power_of_two, next_power_of_two (non-panicking half)
pub fn misc<const B: usize, const L: usize>(nd: &mut Nd) {
    let a: Uint<B, L> = nd.uint();
    let i = nd.upto(B);
    let la = *a.as_limbs();
    let r = a.reverse_bits();
    let want = i < B && refm::bit(&la, B - 1 - i);
    bitres!(nd, "C06.reverse_bits", B, r, i, want);
    // most significant bits
    let n = refm::bit_len(&la);
    let (bits, exp) = a.most_significant_bits();
    if n <= 64 {
        let lo = if L > 0 { la[0] } else { 0 };
        chk!(nd, "C06.most_significant_bits.small", bits == lo && exp == 0);
    } else {
        let sh = refm::shr(&la, n - 64);
        chk!(nd, "C06.most_significant_bits.large", bits == sh[0] && exp == n - 64);
    }
    // next power of two
    let want = next_pow2(B, &la);
    cov!(nd, "next-pow2-none", want.is_none());
    match (a.checked_next_power_of_two(), want) {
        (Some(p), Some(w)) => chk!(nd, "C06.checked_next_power_of_two.value", refm::eq(p.as_limbs(), &w)),
        (None, None) => {}
        (Some(_), None) => chk!(nd, "C06.checked_next_power_of_two.some_but_does_not_fit", false),
        (None, Some(_)) => chk!(nd, "C06.checked_next_power_of_two.none_but_fits", false),
    }
    if let Some(w) = want {
        let p = a.next_power_of_two();
        chk!(nd, "C06.next_power_of_two.value", refm::eq(p.as_limbs(), &w));
    }
}

/// next_power_of_two panics when the power does not fit (never returns)
pub fn next_pow2_panics<const B: usize, const L: usize>(nd: &mut Nd) {
    let a: Uint<B, L> = nd.uint();
    let la = *a.as_limbs();
    nd.assume(next_pow2(B, &la).is_none());
    cov!(nd, "before-call", true);
    let _ = a.next_power_of_two();
    cov!(nd, "returned", true);
}
