//! C03 — division and remainder satisfy the Euclidean contract (Uint API).

use crate::c14::{pat, pat_mul};
use crate::nd::Nd;
use crate::refm;
use crate::uf::add_at;
use ruint::Uint;

/// every division form on a single-limb type, FULL (n, d) with d != 0.
/// The implementation divides natively here; the oracle uses the same native
/// `/ %` (glue: result plumbing, masks, +1 of div_ceil) and, for B <= 16, the
/// arithmetic contract itself.
pub fn single<const B: usize, const W: usize>(nd: &mut Nd) {
    let n: Uint<B, 1> = nd.uint();
    let d: Uint<B, 1> = nd.uint();
    let (x, y) = (n.as_limbs()[0], d.as_limbs()[0]);
    nd.assume(y != 0);
    let (q, r) = (x / y, x % y);
    if B <= 16 {
        chk!(nd, "C03.oracle.contract", q * y + r == x && r < y);
    }
    // each group is its own harness: every call re-encodes algorithms::div
    match W {
        0 => {
            let (gq, gr) = n.div_rem(d);
            chk!(nd, "C03.div_rem", gq.as_limbs()[0] == q && gr.as_limbs()[0] == r);
            chk!(nd, "C03.wrapping_div", n.wrapping_div(d).as_limbs()[0] == q);
            chk!(nd, "C03.wrapping_rem", n.wrapping_rem(d).as_limbs()[0] == r);
            chk!(nd, "C03.checked_div", n.checked_div(d).map(|v| v.as_limbs()[0]) == Some(q));
            chk!(nd, "C03.checked_rem", n.checked_rem(d).map(|v| v.as_limbs()[0]) == Some(r));
        }
        1 => {
            chk!(nd, "C03.op.div.vv", (n / d).as_limbs()[0] == q);
            chk!(nd, "C03.op.div.vr", (n / &d).as_limbs()[0] == q);
            chk!(nd, "C03.op.div.rv", (&n / d).as_limbs()[0] == q);
            chk!(nd, "C03.op.div.rr", (&n / &d).as_limbs()[0] == q);
            let mut t = n;
            t /= d;
            chk!(nd, "C03.op.div_assign.v", t.as_limbs()[0] == q);
            let mut t = n;
            t /= &d;
            chk!(nd, "C03.op.div_assign.r", t.as_limbs()[0] == q);
        }
        2 => {
            chk!(nd, "C03.op.rem.vv", (n % d).as_limbs()[0] == r);
            chk!(nd, "C03.op.rem.vr", (n % &d).as_limbs()[0] == r);
            chk!(nd, "C03.op.rem.rv", (&n % d).as_limbs()[0] == r);
            chk!(nd, "C03.op.rem.rr", (&n % &d).as_limbs()[0] == r);
            let mut t = n;
            t %= d;
            chk!(nd, "C03.op.rem_assign.v", t.as_limbs()[0] == r);
            let mut t = n;
            t %= &d;
            chk!(nd, "C03.op.rem_assign.r", t.as_limbs()[0] == r);
        }
        3 => {
            chk!(nd, "C03.div_ceil", n.div_ceil(d).as_limbs()[0] == q + (r != 0) as u64);
        }
        _ => {
            // least multiple of d that is >= n: n itself, or n - r + d (multiplication-free)
            let m = x as u128 - r as u128 + y as u128;
            let fits = B >= 64 && m <= u64::MAX as u128 || B < 64 && m < (1u128 << B);
            let want = if r == 0 { Some(x) } else if fits { Some(m as u64) } else { None };
            cov!(nd, "does-not-fit", want.is_none());
            if W == 4 {
                if r == 0 || B <= 16 {
                    chk!(nd, "C03.checked_next_multiple_of", n.checked_next_multiple_of(d).map(|v| v.as_limbs()[0]) == want);
                }
            } else if let Some(w) = want {
                if r == 0 || B <= 16 {
                    chk!(nd, "C03.next_multiple_of", n.next_multiple_of(d).as_limbs()[0] == w);
                }
            }
        }
    }
}

/// zero divisor: checked forms return None (any width)
pub fn zero_checked<const B: usize, const L: usize>(nd: &mut Nd) {
    let n: Uint<B, L> = nd.uint();
    let z = Uint::<B, L>::ZERO;
    chk!(nd, "C03.checked_div.zero", n.checked_div(z).is_none());
    chk!(nd, "C03.checked_rem.zero", n.checked_rem(z).is_none());
    chk!(nd, "C03.checked_next_multiple_of.zero", n.checked_next_multiple_of(z).is_none());
}

/// zero divisor: every panicking form panics (never returns)
pub fn zero_panics<const B: usize, const L: usize>(nd: &mut Nd) {
    let n: Uint<B, L> = nd.uint();
    let z = Uint::<B, L>::ZERO;
    let which = nd.u8();
    nd.assume(which < 8);
    cov!(nd, "before-call", true);
    match which {
        0 => {
            let _ = n.div_rem(z);
        }
        1 => {
            let _ = n / z;
        }
        2 => {
            let _ = n % z;
        }
        3 => {
            let _ = n.wrapping_div(z);
        }
        4 => {
            let _ = n.wrapping_rem(z);
        }
        5 => {
            let _ = n.div_ceil(z);
        }
        6 => {
            let _ = n.next_multiple_of(z);
        }
        _ => {
            let mut t = n;
            t /= z;
        }
    }
    cov!(nd, "returned", true);
}

/// next_multiple_of panics when the multiple does not fit (never returns); narrow widths
pub fn next_multiple_overflow_panics<const B: usize>(nd: &mut Nd) {
    let n: Uint<B, 1> = nd.uint();
    let d: Uint<B, 1> = nd.uint();
    let (x, y) = (n.as_limbs()[0], d.as_limbs()[0]);
    nd.assume(y != 0);
    let r = x % y;
    nd.assume(r != 0 && (x - r + y) >> B != 0);
    cov!(nd, "before-call", true);
    let _ = n.next_multiple_of(d);
    cov!(nd, "returned", true);
}

/// multi-limb division through the Uint API on a pinned shape: divisor limbs by
/// code (see c14::coded), quotient pattern limbs, constructive oracle
pub fn multi<const B: usize, const L: usize, const ND: usize, const NQ: usize, const DC: u64>(nd: &mut Nd) {
    let mut dl = [0u64; L];
    let mut i = 0;
    while i < ND {
        let code = (DC >> (4 * i)) & 0xf;
        let x = match code {
            0 | 1 | 6 | 7 => 0,
            _ => nd.u8(),
        };
        dl[i] = crate::c14::coded_pub(code, x);
        i += 1;
    }
    let mut qx = [0u8; NQ];
    let mut qs = [0u8; NQ];
    let mut i = 0;
    while i < NQ {
        qx[i] = nd.u8();
        qs[i] = nd.u8();
        i += 1;
    }
    // remainder: small or d - 1 - small
    let small = nd.u8();
    let high = nd.bool();
    let mut s = [0u64; L];
    if L > 0 {
        s[0] = small as u64;
    }
    let rl = if high {
        let mut one = [0u64; L];
        one[0] = 1;
        let (t, b1) = refm::sub(&dl, &s, false);
        let (t, b2) = refm::sub(&t, &one, false);
        nd.assume(!b1 && !b2);
        t
    } else {
        nd.assume(refm::lt(&s, &dl));
        s
    };
    // n = q*d + r
    let mut nl = [0u64; L];
    let mut over = false;
    let mut ql = [0u64; L];
    let mut i = 0;
    while i < NQ {
        ql[i] = pat(qx[i], qs[i]);
        let mut j = 0;
        while j < ND {
            over |= add_at::<L>(&mut nl, pat_mul(qx[i], qs[i], dl[j]), i + j);
            j += 1;
        }
        i += 1;
    }
    let mut j = 0;
    while j < L {
        over |= add_at::<L>(&mut nl, rl[j] as u128, j);
        j += 1;
    }
    nd.assume(!over && refm::canonical(&nl, B) && refm::canonical(&dl, B));
    let n = Uint::<B, L>::from_limbs(nl);
    let d = Uint::<B, L>::from_limbs(dl);
    let (gq, gr) = n.div_rem(d);
    chk!(nd, "C03.multi.div_rem.quotient", refm::eq(gq.as_limbs(), &ql));
    chk!(nd, "C03.multi.div_rem.remainder", refm::eq(gr.as_limbs(), &rl));
    chk!(nd, "C03.multi.canonical", refm::canonical(gq.as_limbs(), B) && refm::canonical(gr.as_limbs(), B));
}
