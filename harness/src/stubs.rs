//! Stub bodies used with `#[kani::stub]` (each use is listed per harness in
//! the plan and in the evidence).  Const generic names must be literally
//! `BITS`, `LIMBS` for Kani to match generic inherent methods.

use ruint::Uint;

/// over-approximation: any canonical value (used where the result only
/// feeds an accept/reject decision that the harness does not constrain)
#[cfg(kani)]
pub fn from_limbs_slice_any<const BITS: usize, const LIMBS: usize>(_slice: &[u64]) -> Uint<BITS, LIMBS> {
    let mut l: [u64; LIMBS] = kani::any();
    if LIMBS > 0 {
        l[LIMBS - 1] &= ruint::mask(BITS);
    }
    Uint::from_limbs(l)
}

#[cfg(not(kani))]
pub fn from_limbs_slice_any<const BITS: usize, const LIMBS: usize>(slice: &[u64]) -> Uint<BITS, LIMBS> {
    Uint::from_limbs_slice(slice)
}

/// `alloc::fmt::format` replacement: error-message formatting is not the
/// subject of any property here and core::fmt is out of CBMC's reach
pub fn format_stub(_args: core::fmt::Arguments<'_>) -> String {
    String::new()
}

// ---- tagged mixing stubs for inherent methods (facade / glue harnesses):
// cheap, deterministic, argument-order sensitive and distinct per method, so
// "facade(args) == inherent(args)" can only hold by actual forwarding.

#[inline(always)]
fn mix<const BITS: usize, const LIMBS: usize>(a: &Uint<BITS, LIMBS>, b: &Uint<BITS, LIMBS>, tag: u64) -> Uint<BITS, LIMBS> {
    let mut l = [0u64; LIMBS];
    let mut i = 0;
    while i < LIMBS {
        l[i] = a.as_limbs()[i].rotate_left(7).wrapping_add(tag) ^ b.as_limbs()[i].rotate_left(29);
        i += 1;
    }
    if LIMBS > 0 {
        l[LIMBS - 1] &= ruint::mask(BITS);
    }
    Uint::from_limbs(l)
}

#[inline(always)]
fn flag<const BITS: usize, const LIMBS: usize>(a: &Uint<BITS, LIMBS>, b: &Uint<BITS, LIMBS>, tag: u64) -> bool {
    if LIMBS == 0 {
        false
    } else {
        (a.as_limbs()[0] ^ b.as_limbs()[0].rotate_left(3) ^ tag) & 4 != 0
    }
}

pub fn wrapping_mul_mix<const BITS: usize, const LIMBS: usize>(a: Uint<BITS, LIMBS>, b: Uint<BITS, LIMBS>) -> Uint<BITS, LIMBS> {
    mix(&a, &b, 0x1111)
}
pub fn overflowing_mul_mix<const BITS: usize, const LIMBS: usize>(a: Uint<BITS, LIMBS>, b: Uint<BITS, LIMBS>) -> (Uint<BITS, LIMBS>, bool) {
    (mix(&a, &b, 0x2222), flag(&a, &b, 0x2222))
}
pub fn wrapping_div_mix<const BITS: usize, const LIMBS: usize>(a: Uint<BITS, LIMBS>, b: Uint<BITS, LIMBS>) -> Uint<BITS, LIMBS> {
    mix(&a, &b, 0x3333)
}
pub fn wrapping_rem_mix<const BITS: usize, const LIMBS: usize>(a: Uint<BITS, LIMBS>, b: Uint<BITS, LIMBS>) -> Uint<BITS, LIMBS> {
    mix(&a, &b, 0x4444)
}
pub fn div_rem_mix<const BITS: usize, const LIMBS: usize>(a: Uint<BITS, LIMBS>, b: Uint<BITS, LIMBS>) -> (Uint<BITS, LIMBS>, Uint<BITS, LIMBS>) {
    (mix(&a, &b, 0x5555), mix(&b, &a, 0x6666))
}

// ---- shape pinning (DESIGN 4.4): kernels that the harness' domain makes
// unreachable are replaced by panicking bodies; reaching one is a checked
// failure, not an assumption.
pub fn pinned_div_nx1(_limbs: &mut [u64], _divisor: u64) -> u64 {
    panic!("pinned: div_nx1 not expected at this shape")
}
pub fn pinned_div_nx2(_limbs: &mut [u64], _divisor: u128) -> u128 {
    panic!("pinned: div_nx2 not expected at this shape")
}
pub fn pinned_div_nxm(_numerator: &mut [u64], _divisor: &mut [u64]) {
    panic!("pinned: div_nxm not expected at this shape")
}

// ---- abstract residue (C10): `reduce_mod` replaced by "any value below the
// modulus" (0 for modulus 0); the harness reads back what was returned.
pub static mut RESIDUE_LOG: [[u64; 8]; 2] = [[0; 8]; 2];
pub static mut RESIDUE_N: usize = 0;

#[cfg(kani)]
pub fn reduce_mod_any<const BITS: usize, const LIMBS: usize>(_a: Uint<BITS, LIMBS>, m: Uint<BITS, LIMBS>) -> Uint<BITS, LIMBS> {
    let mut l: [u64; LIMBS] = kani::any();
    if LIMBS > 0 {
        l[LIMBS - 1] &= ruint::mask(BITS);
    }
    let mz = crate::refm::is_zero(m.as_limbs());
    if mz {
        l = [0; LIMBS];
    } else {
        kani::assume(crate::refm::lt(&l, m.as_limbs()));
    }
    unsafe {
        let n = RESIDUE_N;
        if n < 2 {
            let mut i = 0;
            while i < LIMBS && i < 8 {
                RESIDUE_LOG[n][i] = l[i];
                i += 1;
            }
            RESIDUE_N = n + 1;
        }
    }
    Uint::from_limbs(l)
}

#[cfg(not(kani))]
pub fn reduce_mod_any<const BITS: usize, const LIMBS: usize>(a: Uint<BITS, LIMBS>, m: Uint<BITS, LIMBS>) -> Uint<BITS, LIMBS> {
    a.reduce_mod(m)
}
