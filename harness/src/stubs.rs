//! Stub bodies used with `#[kani::stub]` (each use is listed per harness in
//! the plan and in the evidence).  Const generic names must be literally
//! `BITS`, `LIMBS` for Kani to match generic inherent methods.

use ruint::Uint;

/// over-approximation: any canonical value (used where the result only
/// feeds an accept/reject decision that the harness does not constrain)
#[cfg(kani)]
pub fn from_limbs_slice_any<const BITS: usize, const LIMBS: usize>(_slice: &[u64]) -> Uint<BITS, LIMBS> {
    let mut l: [u64; LIMBS] = kani::any();
    if LIMBS > 0 {
        l[LIMBS - 1] &= ruint::mask(BITS);
    }
    Uint::from_limbs(l)
}

#[cfg(not(kani))]
pub fn from_limbs_slice_any<const BITS: usize, const LIMBS: usize>(slice: &[u64]) -> Uint<BITS, LIMBS> {
    Uint::from_limbs_slice(slice)
}

/// `alloc::fmt::format` replacement: error-message formatting is not the
/// subject of any property here and core::fmt is out of CBMC's reach
pub fn format_stub(_args: core::fmt::Arguments<'_>) -> String {
    String::new()
}

// ---- tagged mixing stubs for inherent methods (facade / glue harnesses):
// cheap, deterministic, argument-order sensitive and distinct per method, so
// "facade(args) == inherent(args)" can only hold by actual forwarding.

#[inline(always)]
fn mix<const BITS: usize, const LIMBS: usize>(a: &Uint<BITS, LIMBS>, b: &Uint<BITS, LIMBS>, tag: u64) -> Uint<BITS, LIMBS> {
    let mut l = [0u64; LIMBS];
    let mut i = 0;
    while i < LIMBS {
        l[i] = a.as_limbs()[i].rotate_left(7).wrapping_add(tag) ^ b.as_limbs()[i].rotate_left(29);
        i += 1;
    }
    if LIMBS > 0 {
        l[LIMBS - 1] &= ruint::mask(BITS);
    }
    Uint::from_limbs(l)
}

#[inline(always)]
fn flag<const BITS: usize, const LIMBS: usize>(a: &Uint<BITS, LIMBS>, b: &Uint<BITS, LIMBS>, tag: u64) -> bool {
    if LIMBS == 0 {
        false
    } else {
        (a.as_limbs()[0] ^ b.as_limbs()[0].rotate_left(3) ^ tag) & 4 != 0
    }
}

pub fn wrapping_mul_mix<const BITS: usize, const LIMBS: usize>(a: Uint<BITS, LIMBS>, b: Uint<BITS, LIMBS>) -> Uint<BITS, LIMBS> {
    mix(&a, &b, 0x1111)
}
pub fn overflowing_mul_mix<const BITS: usize, const LIMBS: usize>(a: Uint<BITS, LIMBS>, b: Uint<BITS, LIMBS>) -> (Uint<BITS, LIMBS>, bool) {
    (mix(&a, &b, 0x2222), flag(&a, &b, 0x2222))
}
pub fn wrapping_div_mix<const BITS: usize, const LIMBS: usize>(a: Uint<BITS, LIMBS>, b: Uint<BITS, LIMBS>) -> Uint<BITS, LIMBS> {
    mix(&a, &b, 0x3333)
}
pub fn wrapping_rem_mix<const BITS: usize, const LIMBS: usize>(a: Uint<BITS, LIMBS>, b: Uint<BITS, LIMBS>) -> Uint<BITS, LIMBS> {
    mix(&a, &b, 0x4444)
}
pub fn div_rem_mix<const BITS: usize, const LIMBS: usize>(a: Uint<BITS, LIMBS>, b: Uint<BITS, LIMBS>) -> (Uint<BITS, LIMBS>, Uint<BITS, LIMBS>) {
    (mix(&a, &b, 0x5555), mix(&b, &a, 0x6666))
}

// ---- shape pinning (DESIGN 4.4): kernels that the harness' domain makes
// unreachable are replaced by panicking bodies; reaching one is a checked
// failure, not an assumption.
pub fn pinned_div_nx1(_limbs: &mut [u64], _divisor: u64) -> u64 {
    panic!("pinned: div_nx1 not expected at this shape")
}
pub fn pinned_div_nx2(_limbs: &mut [u64], _divisor: u128) -> u128 {
    panic!("pinned: div_nx2 not expected at this shape")
}
pub fn pinned_div_nxm(_numerator: &mut [u64], _divisor: &mut [u64]) {
    panic!("pinned: div_nxm not expected at this shape")
}

// ---- abstract residue (C10): `reduce_mod` replaced by "any value below the
// modulus" (0 for modulus 0); the harness reads back what was returned.
pub static mut RESIDUE_LOG: [[u64; 8]; 2] = [[0; 8]; 2];
pub static mut RESIDUE_N: usize = 0;

#[cfg(kani)]
pub fn reduce_mod_any<const BITS: usize, const LIMBS: usize>(_a: Uint<BITS, LIMBS>, m: Uint<BITS, LIMBS>) -> Uint<BITS, LIMBS> {
    let mut l: [u64; LIMBS] = kani::any();
    if LIMBS > 0 {
        l[LIMBS - 1] &= ruint::mask(BITS);
    }
    let mz = crate::refm::is_zero(m.as_limbs());
    if mz {
        l = [0; LIMBS];
    } else {
        kani::assume(crate::refm::lt(&l, m.as_limbs()));
    }
    unsafe {
        let n = RESIDUE_N;
        if n < 2 {
            let mut i = 0;
            while i < LIMBS && i < 8 {
                RESIDUE_LOG[n][i] = l[i];
                i += 1;
            }
            RESIDUE_N = n + 1;
        }
    }
    Uint::from_limbs(l)
}

#[cfg(not(kani))]
pub fn reduce_mod_any<const BITS: usize, const LIMBS: usize>(a: Uint<BITS, LIMBS>, m: Uint<BITS, LIMBS>) -> Uint<BITS, LIMBS> {
    a.reduce_mod(m)
}

// ---- reciprocal by specification (C14, compositional): `reciprocal(d)` is
// decided on its own (all table rows); inside the division kernels, which
// re-derive it in a debug assertion on every call, it is replaced by "the
// unique v with (2^64 + v) * d <= 2^128 - 1 < (2^64 + v + 1) * d".
#[cfg(kani)]
pub fn reciprocal_spec(d: u64) -> u64 {
    let v: u64 = kani::any();
    // (2^64 + v) * d = d * 2^64 + v * d  as a 3-limb value [lo, mid, hi]
    let vd = (v as u128) * (d as u128);
    let lo = vd as u64;
    let (mid, c) = ((vd >> 64) as u64).overflowing_add(d);
    let hi = c as u64;
    // <= 2^128 - 1  <=>  hi == 0
    kani::assume(hi == 0);
    // + d > 2^128 - 1  <=>  carry out of 128 bits
    let (_l2, c1) = lo.overflowing_add(d);
    let (_m2, c2) = mid.overflowing_add(c1 as u64);
    kani::assume(c2);
    v
}

#[cfg(not(kani))]
pub fn reciprocal_spec(d: u64) -> u64 {
    ruint::algorithms::div::reciprocal(d)
}

/// reciprocal_2 by specification: the unique v with (2^64 + v) * d <= 2^192 - 1 < (2^64 + v + 1) * d
#[cfg(kani)]
pub fn reciprocal_2_spec(d: u128) -> u64 {
    let v: u64 = kani::any();
    let (d0, d1) = (d as u64, (d >> 64) as u64);
    // v * d as three limbs
    let p0 = (v as u128) * (d0 as u128);
    let p1 = (v as u128) * (d1 as u128);
    let l0 = p0 as u64;
    let t = (p0 >> 64) + (p1 & 0xffff_ffff_ffff_ffff);
    let l1 = t as u64;
    let l2 = (p1 >> 64) + (t >> 64); // < 2^64
    // + d * 2^64: add d0 to l1, d1 to l2
    let (m1, c1) = l1.overflowing_add(d0);
    let s2 = l2 + d1 as u128 + c1 as u128;
    // value = [l0, m1, s2(low 64)], overflow beyond 192 bits = s2 >> 64
    kani::assume(s2 >> 64 == 0);
    // adding d once more must carry out of 192 bits
    let (_a0, k0) = l0.overflowing_add(d0);
    let (a1, k1a) = m1.overflowing_add(d1);
    let (_a1, k1b) = a1.overflowing_add(k0 as u64);
    let top = (s2 as u64) as u128 + (k1a as u128) + (k1b as u128);
    kani::assume(top >> 64 != 0);
    v
}

#[cfg(not(kani))]
pub fn reciprocal_2_spec(d: u128) -> u64 {
    ruint::algorithms::div::reciprocal_2(d)
}
