//! Stub bodies used with `#[kani::stub]` (each use is listed per harness in
//! the plan and in the evidence).  Const generic names must be literally
//! `BITS`, `LIMBS` for Kani to match generic inherent methods.

use ruint::Uint;

/// over-approximation: any canonical value (used where the result only
/// feeds an accept/reject decision that the harness does not constrain)
#[cfg(kani)]
pub fn from_limbs_slice_any<const BITS: usize, const LIMBS: usize>(_slice: &[u64]) -> Uint<BITS, LIMBS> {
    let mut l: [u64; LIMBS] = kani::any();
    if LIMBS > 0 {
        l[LIMBS - 1] &= ruint::mask(BITS);
    }
    Uint::from_limbs(l)
}

#[cfg(not(kani))]
pub fn from_limbs_slice_any<const BITS: usize, const LIMBS: usize>(slice: &[u64]) -> Uint<BITS, LIMBS> {
    Uint::from_limbs_slice(slice)
}

/// `alloc::fmt::format` replacement: error-message formatting is not the
/// subject of any property here and core::fmt is out of CBMC's reach
pub fn format_stub(_args: core::fmt::Arguments<'_>) -> String {
    String::new()
}

// ---- tagged mixing stubs for inherent methods (facade / glue harnesses):
// cheap, deterministic, argument-order sensitive and distinct per method, so
// "facade(args) == inherent(args)" can only hold by actual forwarding.

#[inline(always)]
fn mix<const BITS: usize, const LIMBS: usize>(a: &Uint<BITS, LIMBS>, b: &Uint<BITS, LIMBS>, tag: u64) -> Uint<BITS, LIMBS> {
    let mut l = [0u64; LIMBS];
    let mut i = 0;
    while i < LIMBS {
        l[i] = a.as_limbs()[i].rotate_left(7).wrapping_add(tag) ^ b.as_limbs()[i].rotate_left(29);
        i += 1;
    }
    if LIMBS > 0 {
        l[LIMBS - 1] &= ruint::mask(BITS);
    }
    Uint::from_limbs(l)
}

#[inline(always)]
fn flag<const BITS: usize, const LIMBS: usize>(a: &Uint<BITS, LIMBS>, b: &Uint<BITS, LIMBS>, tag: u64) -> bool {
    if LIMBS == 0 {
        false
    } else {
        (a.as_limbs()[0] ^ b.as_limbs()[0].rotate_left(3) ^ tag) & 4 != 0
    }
}

pub fn wrapping_mul_mix<const BITS: usize, const LIMBS: usize>(a: Uint<BITS, LIMBS>, b: Uint<BITS, LIMBS>) -> Uint<BITS, LIMBS> {
    mix(&a, &b, 0x1111)
}
pub fn overflowing_mul_mix<const BITS: usize, const LIMBS: usize>(a: Uint<BITS, LIMBS>, b: Uint<BITS, LIMBS>) -> (Uint<BITS, LIMBS>, bool) {
    (mix(&a, &b, 0x2222), flag(&a, &b, 0x2222))
}
pub fn wrapping_div_mix<const BITS: usize, const LIMBS: usize>(a: Uint<BITS, LIMBS>, b: Uint<BITS, LIMBS>) -> Uint<BITS, LIMBS> {
    mix(&a, &b, 0x3333)
}
pub fn wrapping_rem_mix<const BITS: usize, const LIMBS: usize>(a: Uint<BITS, LIMBS>, b: Uint<BITS, LIMBS>) -> Uint<BITS, LIMBS> {
    mix(&a, &b, 0x4444)
}
pub fn div_rem_mix<const BITS: usize, const LIMBS: usize>(a: Uint<BITS, LIMBS>, b: Uint<BITS, LIMBS>) -> (Uint<BITS, LIMBS>, Uint<BITS, LIMBS>) {
    (mix(&a, &b, 0x5555), mix(&b, &a, 0x6666))
}

pub fn pow_mix<const BITS: usize, const LIMBS: usize>(a: Uint<BITS, LIMBS>, e: Uint<BITS, LIMBS>) -> Uint<BITS, LIMBS> {
    mix(&a, &e, 0x7777)
}
pub fn inv_ring_mix<const BITS: usize, const LIMBS: usize>(a: Uint<BITS, LIMBS>) -> Option<Uint<BITS, LIMBS>> {
    if flag(&a, &a, 0x8888) {
        Some(mix(&a, &a, 0x8888))
    } else {
        None
    }
}
pub fn gcd_mix<const BITS: usize, const LIMBS: usize>(a: Uint<BITS, LIMBS>, b: Uint<BITS, LIMBS>) -> Uint<BITS, LIMBS> {
    mix(&a, &b, 0x9999)
}
pub fn lcm_mix<const BITS: usize, const LIMBS: usize>(a: Uint<BITS, LIMBS>, b: Uint<BITS, LIMBS>) -> Option<Uint<BITS, LIMBS>> {
    if flag(&a, &b, 0xaaaa) {
        Some(mix(&a, &b, 0xaaaa))
    } else {
        None
    }
}
pub fn gcd_extended_mix<const BITS: usize, const LIMBS: usize>(
    a: Uint<BITS, LIMBS>,
    b: Uint<BITS, LIMBS>,
) -> (Uint<BITS, LIMBS>, Uint<BITS, LIMBS>, Uint<BITS, LIMBS>, bool) {
    (mix(&a, &b, 0xbbbb), mix(&b, &a, 0xcccc), mix(&a, &b, 0xdddd), flag(&a, &b, 0xbbbb))
}

// ---- shape pinning (DESIGN 4.4): kernels that the harness' domain makes
// unreachable are replaced by panicking bodies; reaching one is a checked
// failure, not an assumption.
pub fn pinned_div_nx1(_limbs: &mut [u64], _divisor: u64) -> u64 {
    panic!("pinned: div_nx1 not expected at this shape")
}
pub fn pinned_div_nx2(_limbs: &mut [u64], _divisor: u128) -> u128 {
    panic!("pinned: div_nx2 not expected at this shape")
}
pub fn pinned_div_nxm(_numerator: &mut [u64], _divisor: &mut [u64]) {
    panic!("pinned: div_nxm not expected at this shape")
}

pub fn pinned_from_u128_prefix(_r0: u128, _r1: u128) -> ruint::algorithms::LehmerMatrix {
    panic!("pinned: from_u128_prefix not expected at widths <= 64 bits")
}

// ---- abstract residue (C10): `reduce_mod` replaced by "any value below the
// modulus" (0 for modulus 0); the harness reads back what was returned.
pub static mut RESIDUE_LOG: [[u64; 8]; 2] = [[0; 8]; 2];
pub static mut RESIDUE_N: usize = 0;

#[cfg(kani)]
pub fn reduce_mod_any<const BITS: usize, const LIMBS: usize>(_a: Uint<BITS, LIMBS>, m: Uint<BITS, LIMBS>) -> Uint<BITS, LIMBS> {
    let mut l: [u64; LIMBS] = kani::any();
    if LIMBS > 0 {
        l[LIMBS - 1] &= ruint::mask(BITS);
    }
    let mz = crate::refm::is_zero(m.as_limbs());
    if mz {
        l = [0; LIMBS];
    } else {
        kani::assume(crate::refm::lt(&l, m.as_limbs()));
    }
    unsafe {
        let n = RESIDUE_N;
        if n < 2 {
            let mut i = 0;
            while i < LIMBS && i < 8 {
                RESIDUE_LOG[n][i] = l[i];
                i += 1;
            }
            RESIDUE_N = n + 1;
        }
    }
    Uint::from_limbs(l)
}

#[cfg(not(kani))]
pub fn reduce_mod_any<const BITS: usize, const LIMBS: usize>(a: Uint<BITS, LIMBS>, m: Uint<BITS, LIMBS>) -> Uint<BITS, LIMBS> {
    a.reduce_mod(m)
}

// ---- reciprocal by specification (C14, compositional): `reciprocal(d)` is
// decided on its own (all table rows); inside the division kernels, which
// re-derive it in a debug assertion on every call, it is replaced by "the
// unique v with (2^64 + v) * d <= 2^128 - 1 < (2^64 + v + 1) * d".
#[cfg(kani)]
pub fn reciprocal_spec(d: u64) -> u64 {
    let v: u64 = kani::any();
    // (2^64 + v) * d = d * 2^64 + v * d  as a 3-limb value [lo, mid, hi]
    let vd = (v as u128) * (d as u128);
    let lo = vd as u64;
    let (mid, c) = ((vd >> 64) as u64).overflowing_add(d);
    let hi = c as u64;
    // <= 2^128 - 1  <=>  hi == 0
    kani::assume(hi == 0);
    // + d > 2^128 - 1  <=>  carry out of 128 bits
    let (_l2, c1) = lo.overflowing_add(d);
    let (_m2, c2) = mid.overflowing_add(c1 as u64);
    kani::assume(c2);
    v
}

#[cfg(not(kani))]
pub fn reciprocal_spec(d: u64) -> u64 {
    ruint::algorithms::div::reciprocal(d)
}

/// reciprocal_2 by specification: the unique v with (2^64 + v) * d <= 2^192 - 1 < (2^64 + v + 1) * d
#[cfg(kani)]
pub fn reciprocal_2_spec(d: u128) -> u64 {
    let v: u64 = kani::any();
    let (d0, d1) = (d as u64, (d >> 64) as u64);
    // v * d as three limbs
    let p0 = (v as u128) * (d0 as u128);
    let p1 = (v as u128) * (d1 as u128);
    let l0 = p0 as u64;
    let t = (p0 >> 64) + (p1 & 0xffff_ffff_ffff_ffff);
    let l1 = t as u64;
    let l2 = (p1 >> 64) + (t >> 64); // < 2^64
    // + d * 2^64: add d0 to l1, d1 to l2
    let (m1, c1) = l1.overflowing_add(d0);
    let s2 = l2 + d1 as u128 + c1 as u128;
    // value = [l0, m1, s2(low 64)], overflow beyond 192 bits = s2 >> 64
    kani::assume(s2 >> 64 == 0);
    // adding d once more must carry out of 192 bits
    let (_a0, k0) = l0.overflowing_add(d0);
    let (a1, k1a) = m1.overflowing_add(d1);
    let (_a1, k1b) = a1.overflowing_add(k0 as u64);
    let top = (s2 as u64) as u128 + (k1a as u128) + (k1b as u128);
    kani::assume(top >> 64 != 0);
    v
}

#[cfg(not(kani))]
pub fn reciprocal_2_spec(d: u128) -> u64 {
    ruint::algorithms::div::reciprocal_2(d)
}

// ---- C09 formatting: `core::fmt::Formatter::pad_integral` is the one library routine through which both the
// primitive integers and ruint emit their digit strings; it applies sign, `#` prefix, width, fill and alignment.
// CBMC does not get through its real body (char-by-char padding over `dyn Write`), so the formatting harnesses
// replace it by this model of its documented behaviour for the flag combinations they use (no explicit
// fill/alignment): optional prefix when `#`, then zero padding up to the width when `0`, then the digits.
// ruint's own inner `write!(buffer, "{:0width$x}", limb)` calls run through the same model.
pub const ZEROS: &str = "0000000000000000000000000000000000000000000000000000000000000000000000000000000000000000";
pub fn pad_integral_model<'a>(f: &mut core::fmt::Formatter<'a>, is_nonnegative: bool, prefix: &str, buf: &str) -> core::fmt::Result
where
    'a: 'a, // early-bound, so that Kani's generic-parameter count matches `Formatter::<'a>::pad_integral`
{
    let mut n = buf.len();
    if !is_nonnegative {
        f.write_str("-")?;
        n += 1;
    }
    if f.alternate() {
        f.write_str(prefix)?;
        n += prefix.len();
    }
    if f.sign_aware_zero_pad() {
        if let Some(w) = f.width() {
            if w > n {
                let z = w - n;
                if z > ZEROS.len() {
                    return Err(core::fmt::Error);
                }
                f.write_str(&ZEROS[..z])?;
            }
        }
    }
    f.write_str(buf)
}

// ---- C18: CBMC's model of exp2 is an approximation with a nondeterministic error term (a 2^BITS that is off by an
// ulp makes every float harness meaningless, and the query does not finish).  ruint calls exp2 only on integer-valued
// arguments (`BITS as f64`, `exponent as f64`), where the result is exactly representable: the stub builds that power
// of two from its bit pattern.  A non-integer argument reaching the stub is a failed obligation, not an assumption.
pub fn exp2_exact(x: f64) -> f64 {
    let k = x as i64;
    assert!(k as f64 == x, "exp2 stub: argument is not an integer");
    if k > 1023 {
        f64::INFINITY
    } else if k >= -1022 {
        f64::from_bits(((1023 + k) as u64) << 52)
    } else if k >= -1074 {
        f64::from_bits(1u64 << (k + 1074))
    } else {
        0.0
    }
}
pub fn exp2f_exact(x: f32) -> f32 {
    let k = x as i64;
    assert!(k as f32 == x, "exp2 stub: argument is not an integer");
    if k > 127 {
        f32::INFINITY
    } else if k >= -126 {
        f32::from_bits(((127 + k) as u32) << 23)
    } else if k >= -149 {
        f32::from_bits(1u32 << (k + 149))
    } else {
        0.0
    }
}

// ---- C13 (compositional, narrow widths): the single-limb multipliers replaced by their specification, which C02's
// `narrow` harnesses decide against the real code for every operand pair at the same widths.
pub fn overflowing_mul_spec1<const BITS: usize, const LIMBS: usize>(a: Uint<BITS, LIMBS>, b: Uint<BITS, LIMBS>) -> (Uint<BITS, LIMBS>, bool) {
    assert!(LIMBS == 1 && BITS <= 16, "mul spec stub: narrow single-limb widths only");
    let p = a.as_limbs()[0] * b.as_limbs()[0];
    let m = ruint::mask(BITS);
    let mut l = [0u64; LIMBS];
    l[0] = p & m;
    (Uint::from_limbs(l), p > m)
}
pub fn wrapping_mul_spec1<const BITS: usize, const LIMBS: usize>(a: Uint<BITS, LIMBS>, b: Uint<BITS, LIMBS>) -> Uint<BITS, LIMBS> {
    overflowing_mul_spec1(a, b).0
}

// f64::log2 on the integers 1..=255 (all that `approx_log2` can pass at widths <= 8 bits): correctly rounded table.
// CBMC's own log2 is an approximation with a nondeterministic error term.  Any other argument fails the harness.
pub const LOG2_TABLE: [f64; 256] = [0.0, 0.0, 1.0, 1.584962500721156, 2.0, 2.321928094887362, 2.584962500721156, 2.807354922057604, 3.0, 3.169925001442312, 3.321928094887362, 3.4594316186372973, 3.584962500721156, 3.700439718141092, 3.807354922057604, 3.9068905956085187, 4.0, 4.087462841250339, 4.169925001442312, 4.247927513443585, 4.321928094887363, 4.392317422778761, 4.459431618637297, 4.523561956057013, 4.584962500721156, 4.643856189774724, 4.700439718141092, 4.754887502163468, 4.807354922057604, 4.857980995127572, 4.906890595608519, 4.954196310386875, 5.0, 5.044394119358453, 5.087462841250339, 5.129283016944966, 5.169925001442312, 5.20945336562895, 5.247927513443585, 5.285402218862249, 5.321928094887363, 5.357552004618084, 5.392317422778761, 5.426264754702098, 5.459431618637297, 5.491853096329675, 5.523561956057013, 5.554588851677638, 5.584962500721156, 5.614709844115208, 5.643856189774724, 5.672425341971495, 5.700439718141092, 5.727920454563199, 5.754887502163468, 5.78135971352466, 5.807354922057604, 5.832890014164741, 5.857980995127572, 5.882643049361842, 5.906890595608519, 5.930737337562887, 5.954196310386875, 5.977279923499917, 6.0, 6.022367813028454, 6.044394119358453, 6.066089190457772, 6.087462841250339, 6.108524456778169, 6.129283016944966, 6.149747119504682, 6.169925001442312, 6.189824558880018, 6.20945336562895, 6.22881869049588, 6.247927513443585, 6.266786540694901, 6.285402218862249, 6.303780748177103, 6.321928094887363, 6.339850002884624, 6.357552004618084, 6.3750394313469245, 6.392317422778761, 6.409390936137702, 6.426264754702098, 6.442943495848728, 6.459431618637297, 6.475733430966398, 6.491853096329675, 6.507794640198696, 6.523561956057013, 6.539158811108031, 6.554588851677638, 6.569855608330948, 6.584962500721156, 6.599912842187128, 6.614709844115208, 6.6293566200796095, 6.643856189774724, 6.658211482751795, 6.672425341971495, 6.6865005271832185, 6.700439718141092, 6.714245517666122, 6.727920454563199, 6.741466986401147, 6.754887502163468, 6.768184324776926, 6.78135971352466, 6.794415866350106, 6.807354922057604, 6.820178962415188, 6.832890014164741, 6.845490050944375, 6.857980995127572, 6.870364719583405, 6.882643049361842, 6.894817763307944, 6.906890595608519, 6.918863237274595, 6.930737337562887, 6.94251450533924, 6.954196310386875, 6.965784284662087, 6.977279923499917, 6.9886846867721655, 7.0, 7.011227255423254, 7.022367813028454, 7.03342300153745, 7.044394119358453, 7.05528243550119, 7.066089190457772, 7.076815597050831, 7.087462841250339, 7.098032082960526, 7.108524456778169, 7.118941072723508, 7.129283016944966, 7.139551352398794, 7.149747119504682, 7.159871336778389, 7.169925001442312, 7.1799090900149345, 7.189824558880018, 7.199672344836364, 7.20945336562895, 7.219168520462161, 7.22881869049588, 7.2384047393250786, 7.247927513443585, 7.257387842692652, 7.266786540694901, 7.2761244052742375, 7.285402218862249, 7.294620748891627, 7.303780748177103, 7.312882955284356, 7.321928094887363, 7.330916878114617, 7.339850002884624, 7.348728154231077, 7.357552004618084, 7.366322214245816, 7.3750394313469245, 7.383704292474052, 7.392317422778761, 7.400879436282184, 7.409390936137702, 7.417852514885898, 7.426264754702098, 7.434628227636725, 7.442943495848728, 7.451211111832329, 7.459431618637297, 7.467605550082998, 7.475733430966398, 7.483815777264256, 7.491853096329675, 7.499845887083206, 7.507794640198696, 7.515699838284043, 7.523561956057013, 7.531381460516312, 7.539158811108031, 7.546894459887636, 7.554588851677638, 7.562242424221073, 7.569855608330948, 7.577428828035749, 7.584962500721156, 7.592457037268081, 7.599912842187128, 7.60733031374961, 7.614709844115208, 7.622051819456376, 7.6293566200796095, 7.636624620543649, 7.643856189774724, 7.651051691178929, 7.658211482751795, 7.6653359171851765, 7.672425341971495, 7.679480099505446, 7.6865005271832185, 7.693486957499325, 7.700439718141092, 7.7073591320808825, 7.714245517666122, 7.721099188707185, 7.727920454563199, 7.734709620225838, 7.741466986401147, 7.7481928495894605, 7.754887502163468, 7.7615512324444795, 7.768184324776926, 7.774787059601174, 7.78135971352466, 7.787902559391432, 7.794415866350106, 7.800899899920305, 7.807354922057604, 7.813781191217037, 7.820178962415188, 7.826548487290915, 7.832890014164741, 7.839203788096944, 7.845490050944375, 7.851749041416057, 7.857980995127572, 7.864186144654281, 7.870364719583405, 7.876516946564999, 7.882643049361842, 7.888743248898259, 7.894817763307944, 7.900866807980749, 7.906890595608519, 7.912889336229962, 7.918863237274595, 7.924812503605781, 7.930737337562887, 7.936637939002571, 7.94251450533924, 7.948367231584678, 7.954196310386875, 7.960001932068081, 7.965784284662087, 7.971543553950772, 7.977279923499917, 7.98299357469431, 7.9886846867721655, 7.994353436858858];
pub fn log2_table(x: f64) -> f64 {
    let k = x as u64;
    assert!(k as f64 == x && k >= 1 && k <= 255, "log2 stub: argument outside the table");
    LOG2_TABLE[k as usize]
}

// ---- C10 (compositional, narrow widths): mul_mod replaced by its specification, which the `narrow` mul_mod
// harnesses decide against the real code for every (a, b, m) at the same widths.
pub fn mul_mod_spec1<const BITS: usize, const LIMBS: usize>(a: Uint<BITS, LIMBS>, b: Uint<BITS, LIMBS>, m: Uint<BITS, LIMBS>) -> Uint<BITS, LIMBS> {
    assert!(LIMBS == 1 && BITS <= 8, "mul_mod spec stub: narrow single-limb widths only");
    let (a, b, m) = (a.as_limbs()[0] as u16, b.as_limbs()[0] as u16, m.as_limbs()[0] as u16);
    let mut l = [0u64; LIMBS];
    l[0] = if m == 0 { 0 } else { ((a * b) % m) as u64 };
    Uint::from_limbs(l)
}
