//! Stub bodies used with `#[kani::stub]` (each use is listed per harness in
//! the plan and in the evidence).  Const generic names must be literally
//! `BITS`, `LIMBS` for Kani to match generic inherent methods.

use ruint::Uint;

/// over-approximation: any canonical value (used where the result only
/// feeds an accept/reject decision that the harness does not constrain)
#[cfg(kani)]
pub fn from_limbs_slice_any<const BITS: usize, const LIMBS: usize>(_slice: &[u64]) -> Uint<BITS, LIMBS> {
    let mut l: [u64; LIMBS] = kani::any();
    if LIMBS > 0 {
        l[LIMBS - 1] &= ruint::mask(BITS);
    }
    Uint::from_limbs(l)
}

#[cfg(not(kani))]
pub fn from_limbs_slice_any<const BITS: usize, const LIMBS: usize>(slice: &[u64]) -> Uint<BITS, LIMBS> {
    Uint::from_limbs_slice(slice)
}

/// `alloc::fmt::format` replacement: error-message formatting is not the
/// subject of any property here and core::fmt is out of CBMC's reach
pub fn format_stub(_args: core::fmt::Arguments<'_>) -> String {
    String::new()
}
