//! Reference models on little-endian limb arrays.  Short, loop-based, and
//! free of `*`, `/`, `%` on symbolic words (so they are cheap for the SAT
//! back end and independent of the code under test).

/// bit `i` of the number (false beyond the array)
#[inline(always)]
pub fn bit<const L: usize>(a: &[u64; L], i: usize) -> bool {
    if i >= 64 * L {
        false
    } else {
        (a[i / 64] >> (i % 64)) & 1 == 1
    }
}

/// bit i of a slice
#[inline(always)]
pub fn sbit(a: &[u64], i: usize) -> bool {
    if i / 64 >= a.len() {
        false
    } else {
        (a[i / 64] >> (i % 64)) & 1 == 1
    }
}

/// byte `i` (base-256 digit) of the number (0 beyond the array)
#[inline(always)]
pub fn byte<const L: usize>(a: &[u64; L], i: usize) -> u8 {
    if i >= 8 * L {
        0
    } else {
        (a[i / 8] >> (8 * (i % 8))) as u8
    }
}

#[inline(always)]
pub fn is_zero<const L: usize>(a: &[u64; L]) -> bool {
    let mut z = true;
    let mut i = 0;
    while i < L {
        z &= a[i] == 0;
        i += 1;
    }
    z
}

#[inline(always)]
pub fn eq<const L: usize>(a: &[u64; L], b: &[u64; L]) -> bool {
    let mut z = true;
    let mut i = 0;
    while i < L {
        z &= a[i] == b[i];
        i += 1;
    }
    z
}

/// -1, 0, 1 by comparing from the top limb down
#[inline(always)]
pub fn cmp<const L: usize>(a: &[u64; L], b: &[u64; L]) -> i8 {
    let mut r = 0i8;
    let mut i = 0;
    while i < L {
        // lower limbs first; higher limbs override
        if a[i] < b[i] {
            r = -1;
        } else if a[i] > b[i] {
            r = 1;
        }
        i += 1;
    }
    r
}

#[inline(always)]
pub fn lt<const L: usize>(a: &[u64; L], b: &[u64; L]) -> bool {
    cmp(a, b) < 0
}

/// a + b + cin, returns (sum, carry-out of 64*L bits)
#[inline(always)]
pub fn add<const L: usize>(a: &[u64; L], b: &[u64; L], cin: bool) -> ([u64; L], bool) {
    let mut r = [0u64; L];
    let mut c = cin as u128;
    let mut i = 0;
    while i < L {
        let s = a[i] as u128 + b[i] as u128 + c;
        r[i] = s as u64;
        c = s >> 64;
        i += 1;
    }
    (r, c != 0)
}

/// a - b - bin, returns (difference mod 2^(64L), borrow-out)
#[inline(always)]
pub fn sub<const L: usize>(a: &[u64; L], b: &[u64; L], bin: bool) -> ([u64; L], bool) {
    let mut r = [0u64; L];
    let mut c = bin as u128;
    let mut i = 0;
    while i < L {
        let s = (a[i] as u128).wrapping_sub(b[i] as u128).wrapping_sub(c);
        r[i] = s as u64;
        c = (s >> 64) & 1;
        i += 1;
    }
    (r, c != 0)
}

/// number of significant bits
#[inline(always)]
pub fn bit_len<const L: usize>(a: &[u64; L]) -> usize {
    let mut n = 0usize;
    let mut i = 0;
    while i < L {
        if a[i] != 0 {
            n = 64 * i + (64 - a[i].leading_zeros() as usize);
        }
        i += 1;
    }
    n
}

/// number of significant bytes
#[inline(always)]
pub fn byte_len<const L: usize>(a: &[u64; L]) -> usize {
    (bit_len(a) + 7) / 8
}

/// index of lowest set bit, or 64*L if zero
#[inline(always)]
pub fn trailing_zeros<const L: usize>(a: &[u64; L]) -> usize {
    let mut n = 64 * L;
    let mut i = L;
    while i > 0 {
        i -= 1;
        if a[i] != 0 {
            n = 64 * i + a[i].trailing_zeros() as usize;
        }
    }
    n
}

#[inline(always)]
pub fn popcount<const L: usize>(a: &[u64; L]) -> usize {
    let mut n = 0usize;
    let mut i = 0;
    while i < L {
        n += a[i].count_ones() as usize;
        i += 1;
    }
    n
}

/// mask of a B-bit number's top limb
#[inline(always)]
pub const fn mask(bits: usize) -> u64 {
    if bits == 0 {
        0
    } else if bits % 64 == 0 {
        u64::MAX
    } else {
        (1u64 << (bits % 64)) - 1
    }
}

/// value fits B bits (array of L = ceil(B/64) limbs)
#[inline(always)]
pub fn canonical<const L: usize>(a: &[u64; L], bits: usize) -> bool {
    if L == 0 {
        true
    } else {
        a[L - 1] & !mask(bits) == 0
    }
}

/// reduce mod 2^bits
#[inline(always)]
pub fn masked<const L: usize>(mut a: [u64; L], bits: usize) -> [u64; L] {
    if L > 0 {
        a[L - 1] &= mask(bits);
    }
    a
}

/// the all-ones B-bit value
#[inline(always)]
pub fn max<const L: usize>(bits: usize) -> [u64; L] {
    masked([u64::MAX; L], bits)
}

/// a << s (s arbitrary), within 64*L bits, loop-free per limb pair
#[inline(always)]
pub fn shl<const L: usize>(a: &[u64; L], s: usize) -> [u64; L] {
    let mut r = [0u64; L];
    if s >= 64 * L {
        return r;
    }
    let (ls, bs) = (s / 64, s % 64);
    let mut i = 0;
    while i < L {
        if i >= ls {
            let lo = a[i - ls] << bs;
            let hi = if bs > 0 && i > ls {
                a[i - ls - 1] >> (64 - bs)
            } else {
                0
            };
            r[i] = lo | hi;
        }
        i += 1;
    }
    r
}

/// a >> s (s arbitrary)
#[inline(always)]
pub fn shr<const L: usize>(a: &[u64; L], s: usize) -> [u64; L] {
    let mut r = [0u64; L];
    if s >= 64 * L {
        return r;
    }
    let (ls, bs) = (s / 64, s % 64);
    let mut i = 0;
    while i < L {
        if i + ls < L {
            let lo = a[i + ls] >> bs;
            let hi = if bs > 0 && i + ls + 1 < L {
                a[i + ls + 1] << (64 - bs)
            } else {
                0
            };
            r[i] = lo | hi;
        }
        i += 1;
    }
    r
}

/// shift-and-add product a*b truncated to L limbs, plus "overflowed 64*L bits"
/// flag.  Intended for structurally narrow `b` (loop over `bbits` bits of b).
#[inline(always)]
pub fn mul_shift_add<const L: usize>(a: &[u64; L], b: &[u64; L], bbits: usize) -> ([u64; L], bool) {
    let mut acc = [0u64; L];
    let mut ovf = false;
    let mut i = bbits;
    while i > 0 {
        i -= 1;
        // acc = 2*acc
        let (d, c) = add(&acc, &acc, false);
        acc = d;
        ovf |= c;
        if bit(b, i) {
            let (s, c) = add(&acc, a, false);
            acc = s;
            ovf |= c;
        }
    }
    (acc, ovf)
}
