//! C18 — floating-point conversions.  The f64 bit pattern is partitioned into
//! classes (one harness per class and width) to keep each float query small;
//! the oracle is integer-only (decompose the pattern, shift the significand).

use crate::nd::Nd;
use crate::refm;
use ruint::{ToUintError, Uint};

#[derive(PartialEq, Eq, Clone, Copy)]
enum Want {
    Nan,
    Negative,
    Value([u64; 4], bool), // (value in 4 limbs, exceeds 256 bits)
}

/// floor(f + 1/2) for a finite non-negative f given by its fields, in 4 limbs
#[inline(always)]
fn round_half_up(exp: u64, mant: u64) -> ([u64; 4], bool) {
    if exp < 1022 {
        return ([0; 4], false); // below 1/2 (incl. zero and subnormals)
    }
    let m = (1u64 << 52) | mant;
    if exp <= 1074 {
        let shift = 1075 - exp; // 1..=53
        let int = if shift >= 64 { 0 } else { m >> shift };
        let half = (m >> (shift - 1)) & 1;
        ([int + half, 0, 0, 0], false)
    } else {
        let sh = (exp - 1075) as usize;
        if sh > 256 - 53 {
            ([0; 4], true)
        } else {
            (shl4(m, sh), false)
        }
    }
}

/// m * 2^sh over four limbs, loop-free (a loop in the oracle would raise the harness-wide unwinding bound, which is
/// also the recursion bound of TryFrom<f64>: 2^bound copies of its body)
#[inline(always)]
fn shl4(m: u64, sh: usize) -> [u64; 4] {
    let (k, o) = (sh / 64, sh % 64);
    let lo = m << o;
    let hi = if o == 0 { 0 } else { m >> (64 - o) };
    match k {
        0 => [lo, hi, 0, 0],
        1 => [0, lo, hi, 0],
        2 => [0, 0, lo, hi],
        3 => [0, 0, 0, lo],
        _ => [0, 0, 0, 0],
    }
}

/// the 4-limb oracle value cut to L limbs, and whether it fits B bits (loop-free)
#[inline(always)]
fn fit4<const L: usize>(v: &[u64; 4], big: bool, bits: usize) -> ([u64; L], bool) {
    let mut w = [0u64; L];
    let mut fits = !big;
    if 0 < L {
        w[0] = v[0];
    } else {
        fits &= v[0] == 0;
    }
    if 1 < L {
        w[1] = v[1];
    } else {
        fits &= v[1] == 0;
    }
    if 2 < L {
        w[2] = v[2];
    } else {
        fits &= v[2] == 0;
    }
    if 3 < L {
        w[3] = v[3];
    } else {
        fits &= v[3] == 0;
    }
    if L > 0 {
        fits &= w[L - 1] & !refm::mask(bits) == 0;
    }
    (w, fits)
}

#[inline(always)]
fn classify(bits: u64) -> Want {
    let sign = bits >> 63 != 0;
    let exp = (bits >> 52) & 0x7ff;
    let mant = bits & ((1u64 << 52) - 1);
    if exp == 2047 && mant != 0 {
        return Want::Nan;
    }
    if sign && (exp != 0 || mant != 0) {
        return Want::Negative; // every float below zero, incl. -inf (but not -0)
    }
    if exp == 2047 {
        return Want::Value([0; 4], true); // +inf
    }
    let (v, big) = round_half_up(exp, mant);
    Want::Value(v, big)
}

/// CLS: 0 NaN, 1 negative, 2 zeros/[0, 1/2), 3 [1/2, 2^52), 4 [2^52, 2^53), 5 [2^53, inf), 6 +inf
#[inline(always)]
fn draw<const CLS: usize>(nd: &mut Nd) -> u64 {
    let raw = nd.u64();
    let mant = raw & ((1u64 << 52) - 1);
    let e = (raw >> 52) & 0x7ff;
    match CLS {
        0 => (raw & (1 << 63)) | (2047 << 52) | mant | ((mant == 0) as u64),
        1 => {
            let b = (1 << 63) | (raw & !(1u64 << 63));
            let nan = e == 2047 && mant != 0;
            let negzero = e == 0 && mant == 0;
            nd.assume(!nan && !negzero);
            b
        }
        2 => {
            nd.assume(e < 1022);
            // sign allowed only for -0
            if e == 0 && mant == 0 {
                raw & ((1 << 63) | 0)
            } else {
                raw & !(1u64 << 63)
            }
        }
        3 => {
            nd.assume(e >= 1022 && e <= 1074);
            raw & !(1u64 << 63)
        }
        4 => (1075u64 << 52) | mant,
        5 => {
            nd.assume(e >= 1076 && e <= 2046);
            raw & !(1u64 << 63)
        }
        _ => 2047u64 << 52,
    }
}

pub fn from_f64<const B: usize, const L: usize, const CLS: usize>(nd: &mut Nd) {
    let bits = draw::<CLS>(nd);
    let f = f64::from_bits(bits);
    let want = classify(bits);
    let got = Uint::<B, L>::try_from(f);
    let sat = Uint::<B, L>::saturating_from(f);
    match want {
        Want::Nan => {
            chk!(nd, "C18.from_f64.nan", matches!(got, Err(ToUintError::NotANumber(b)) if b == B));
            chk!(nd, "C18.saturating_from.nan", refm::is_zero(sat.as_limbs()));
            chk!(nd, "C18.wrapping_from.nan", refm::is_zero(Uint::<B, L>::wrapping_from(f).as_limbs()));
        }
        Want::Negative => {
            chk!(nd, "C18.from_f64.negative", matches!(got, Err(ToUintError::ValueNegative(b, _)) if b == B));
            chk!(nd, "C18.saturating_from.negative", refm::is_zero(sat.as_limbs()));
        }
        Want::Value(v, big) => {
            // fits B bits?
            let (w, fits) = fit4::<L>(&v, big, B);
            cov!(nd, "fits", fits);
            cov!(nd, "too-large", !fits);
            match got {
                Ok(x) => chk!(nd, "C18.from_f64.value", fits && refm::eq(x.as_limbs(), &w)),
                Err(ToUintError::ValueTooLarge(b, _)) => chk!(nd, "C18.from_f64.too_large_but_fits", !fits && b == B),
                Err(_) => chk!(nd, "C18.from_f64.wrong_error", false),
            }
            let max = refm::max::<L>(B);
            chk!(nd, "C18.saturating_from.value", refm::eq(sat.as_limbs(), if fits { &w } else { &max }));
        }
    }
}

/// f32 goes through the same oracle after exact widening
pub fn from_f32<const B: usize, const L: usize>(nd: &mut Nd) {
    let raw = nd.u32();
    let f = f32::from_bits(raw);
    let bits = (f as f64).to_bits(); // exact
    let want = classify(bits);
    let got = Uint::<B, L>::try_from(f);
    match want {
        Want::Nan => chk!(nd, "C18.from_f32.nan", matches!(got, Err(ToUintError::NotANumber(_)))),
        Want::Negative => chk!(nd, "C18.from_f32.negative", matches!(got, Err(ToUintError::ValueNegative(..)))),
        Want::Value(v, big) => {
            let (w, fits) = fit4::<L>(&v, big, B);
            match got {
                Ok(x) => chk!(nd, "C18.from_f32.value", fits && refm::eq(x.as_limbs(), &w)),
                Err(ToUintError::ValueTooLarge(..)) => chk!(nd, "C18.from_f32.too_large_but_fits", !fits),
                Err(_) => chk!(nd, "C18.from_f32.wrong_error", false),
            }
        }
    }
}

/// Uint -> f64: one of the two 53-bit neighbours of the exact value, exact when representable
pub fn to_f64<const B: usize, const L: usize>(nd: &mut Nd) {
    let v: Uint<B, L> = nd.uint();
    let lv = *v.as_limbs();
    let n = refm::bit_len(&lv);
    let f = f64::from(v);
    let bits = f.to_bits();
    let exp = (bits >> 52) & 0x7ff;
    let mant = bits & ((1u64 << 52) - 1);
    chk!(nd, "C18.to_f64.finite_nonnegative", bits >> 63 == 0 && exp != 2047);
    if n == 0 {
        chk!(nd, "C18.to_f64.zero", bits == 0);
        return;
    }
    chk!(nd, "C18.to_f64.normal", exp >= 1023);
    if exp >= 1023 && exp != 2047 {
        // the float as an integer: m * 2^(exp - 1075)
        let m = (1u64 << 52) | mant;
        let e = exp as i64 - 1075;
        // exact value truncated to its top 53 bits (lo) and lo + ulp (hi), as (53-bit significand, shift)
        if n <= 53 {
            // representable: the float must be exact, i.e. m * 2^e == value with e <= 0
            let sh = (-e) as usize;
            chk!(nd, "C18.to_f64.exact_small", e <= 0 && sh < 64 && (m >> sh) << sh == m && L > 0 && m >> sh == lv[0]);
        } else {
            let drop = n - 53;
            let top = refm::shr(&lv, drop)[0]; // 53 bits, top bit set
            // dropped bits all zero?
            let back = refm::shl(&refm::shr(&lv, drop), drop);
            let exact = refm::eq(&back, &lv);
            // result must be top * 2^drop, or (top + 1) * 2^drop unless exact
            let is_lo = m == top && e == drop as i64;
            let is_hi = if top + 1 == 1u64 << 53 {
                m == 1u64 << 52 && e == drop as i64 + 1
            } else {
                m == top + 1 && e == drop as i64
            };
            chk!(nd, "C18.to_f64.neighbour", is_lo || (!exact && is_hi));
        }
    }
}

/// monotone: a <= b  =>  f64(a) <= f64(b)
pub fn to_f64_monotone<const B: usize, const L: usize>(nd: &mut Nd) {
    let a: Uint<B, L> = nd.uint();
    let b: Uint<B, L> = nd.uint();
    nd.assume(!refm::lt(b.as_limbs(), a.as_limbs()));
    chk!(nd, "C18.to_f64.monotone", f64::from(a) <= f64::from(b));
}

/// lean float -> Uint harness: one call of try_from (the class body above makes three conversions per run)
pub fn try_from_f64<const B: usize, const L: usize, const CLS: usize>(nd: &mut Nd) {
    let bits = draw::<CLS>(nd);
    let f = f64::from_bits(bits);
    let want = classify(bits);
    let got = Uint::<B, L>::try_from(f);
    match want {
        Want::Nan => chk!(nd, "C18.from_f64.nan", matches!(got, Err(ToUintError::NotANumber(b)) if b == B)),
        Want::Negative => chk!(nd, "C18.from_f64.negative", matches!(got, Err(ToUintError::ValueNegative(b, _)) if b == B)),
        Want::Value(v, big) => {
            let (w, fits) = fit4::<L>(&v, big, B);
            cov!(nd, "fits", fits);
            cov!(nd, "too-large", !fits);
            match got {
                Ok(x) => chk!(nd, "C18.from_f64.value", fits && refm::eq(x.as_limbs(), &w)),
                Err(ToUintError::ValueTooLarge(b, _)) => chk!(nd, "C18.from_f64.too_large_but_fits", !fits && b == B),
                Err(_) => chk!(nd, "C18.from_f64.wrong_error", false),
            }
        }
    }
}

/// saturating_from(f64): MAX for too large (incl. +inf), 0 for negative and NaN, the rounded value otherwise
pub fn saturating_from_f64<const B: usize, const L: usize, const CLS: usize>(nd: &mut Nd) {
    let bits = draw::<CLS>(nd);
    let f = f64::from_bits(bits);
    let want = classify(bits);
    let sat = Uint::<B, L>::saturating_from(f);
    match want {
        Want::Nan => chk!(nd, "C18.saturating_from.nan", refm::is_zero(sat.as_limbs())),
        Want::Negative => chk!(nd, "C18.saturating_from.negative", refm::is_zero(sat.as_limbs())),
        Want::Value(v, big) => {
            let (w, fits) = fit4::<L>(&v, big, B);
            let max = refm::max::<L>(B);
            chk!(nd, "C18.saturating_from.value", refm::eq(sat.as_limbs(), if fits { &w } else { &max }));
        }
    }
}

/// Uint -> f32: one of the two 24-bit neighbours of the exact value (exact when representable); +infinity only when
/// the upper neighbour is 2^128 (beyond the largest finite f32) or the value has more than 128 bits
pub fn to_f32<const B: usize, const L: usize>(nd: &mut Nd) {
    let v: Uint<B, L> = nd.uint();
    let lv = *v.as_limbs();
    let n = refm::bit_len(&lv);
    let f = f32::from(v);
    let bits = f.to_bits();
    let exp = ((bits >> 23) & 0xff) as u64;
    let mant = (bits & ((1u32 << 23) - 1)) as u64;
    chk!(nd, "C18.to_f32.nonnegative_not_nan", bits >> 31 == 0 && !(exp == 255 && mant != 0));
    if n == 0 {
        chk!(nd, "C18.to_f32.zero", bits == 0);
        return;
    }
    let inf = exp == 255;
    cov!(nd, "infinite", inf);
    if n > 128 {
        chk!(nd, "C18.to_f32.inf_above_range", inf);
        return;
    }
    let m = (1u64 << 23) | mant;
    let e = exp as i64 - 150; // value = m * 2^e
    if n <= 24 {
        let sh = (-e) as usize;
        chk!(nd, "C18.to_f32.exact_small", !inf && e <= 0 && sh < 64 && (m >> sh) << sh == m && L > 0 && m >> sh == lv[0]);
    } else {
        let drop = n - 24;
        let top = refm::shr(&lv, drop)[0]; // 24 bits, top bit set
        let back = refm::shl(&refm::shr(&lv, drop), drop);
        let exact = refm::eq(&back, &lv);
        let hi_is_pow2 = top + 1 == 1u64 << 24;
        if inf {
            // only when the upper neighbour is 2^128
            chk!(nd, "C18.to_f32.inf_only_beyond_range", n == 128 && hi_is_pow2 && !exact);
        } else {
            chk!(nd, "C18.to_f32.normal", exp >= 127);
            let is_lo = m == top && e == drop as i64;
            let is_hi = if hi_is_pow2 { m == 1u64 << 23 && e == drop as i64 + 1 } else { m == top + 1 && e == drop as i64 };
            chk!(nd, "C18.to_f32.neighbour", is_lo || (!exact && is_hi));
        }
    }
}

/// monotone: a <= b  =>  f32(a) <= f32(b)
pub fn to_f32_monotone<const B: usize, const L: usize>(nd: &mut Nd) {
    let a: Uint<B, L> = nd.uint();
    let b: Uint<B, L> = nd.uint();
    nd.assume(!refm::lt(b.as_limbs(), a.as_limbs()));
    chk!(nd, "C18.to_f32.monotone", f32::from(a) <= f32::from(b));
}
