//! C12 — gcd, lcm, extended gcd, Lehmer matrix (and C10's inv_mod) on narrow
//! widths: every operand pair of the width against Euclid's algorithm on u8/u16.
//! At widths <= 64 bits `LehmerMatrix::from` is `from_u64` (the complete 64-bit
//! extended Euclid), so this decides that routine, `Matrix::apply`, the sign
//! bookkeeping and the swap logic; the 128-bit prefix path is pinned unreachable
//! by the width.

use crate::nd::Nd;
use ruint::algorithms::LehmerMatrix;
use ruint::Uint;

/// Euclid on u8, unrolled by macro (at most 12 division steps for 8-bit operands: Fibonacci 233, 144): a loop here
/// would force the harness-wide unwinding bound up and with it every 64-bit divider of `from_u64`'s loop
#[inline(always)]
fn ref_gcd(mut a: u8, mut b: u8) -> u8 {
    macro_rules! step {
        () => {
            if b != 0 {
                let t = a % b;
                a = b;
                b = t;
            }
        };
    }
    step!();
    step!();
    step!();
    step!();
    step!();
    step!();
    step!();
    step!();
    step!();
    step!();
    step!();
    step!();
    step!();
    a
}

#[inline(always)]
fn pair<const B: usize>(nd: &mut Nd) -> (u8, u8, Uint<B, 1>, Uint<B, 1>) {
    let m: u8 = if B >= 8 { 0xff } else { (1u8 << B) - 1 };
    let x = nd.u8() & m;
    let y = nd.u8() & m;
    (x, y, Uint::from_limbs([x as u64]), Uint::from_limbs([y as u64]))
}

pub fn gcd_narrow<const B: usize>(nd: &mut Nd) {
    let (x, y, a, b) = pair::<B>(nd);
    let g = a.gcd(b);
    cov!(nd, "coprime", ref_gcd(x, y) == 1 && x > 1 && y > 1);
    cov!(nd, "common-factor", ref_gcd(x, y) > 1 && x != y && x != 0 && y != 0);
    chk!(nd, "C12.gcd", g.as_limbs()[0] == ref_gcd(x, y) as u64);
}

pub fn lcm_narrow<const B: usize>(nd: &mut Nd) {
    let (x, y, a, b) = pair::<B>(nd);
    let m: u16 = if B >= 8 { 0xff } else { (1u16 << B) - 1 };
    let want: Option<u16> = if x == 0 || y == 0 {
        Some(0)
    } else {
        let l = (x / ref_gcd(x, y)) as u16 * y as u16;
        if l <= m {
            Some(l)
        } else {
            None
        }
    };
    cov!(nd, "lcm-overflows", want.is_none());
    cov!(nd, "lcm-fits", matches!(want, Some(l) if l > 0 && l != x as u16 * y as u16));
    let got = a.lcm(b).map(|v| v.as_limbs()[0]);
    chk!(nd, "C12.lcm", got == want.map(|v| v as u64));
}

pub fn gcd_extended_narrow<const B: usize>(nd: &mut Nd) {
    let (x, y, a, b) = pair::<B>(nd);
    let m: u64 = if B >= 8 { 0xff } else { (1u64 << B) - 1 };
    let (g, s, t, sign) = a.gcd_extended(b);
    let (g, s, t) = (g.as_limbs()[0], s.as_limbs()[0], t.as_limbs()[0]);
    chk!(nd, "C12.gcd_extended.gcd", g == ref_gcd(x, y) as u64);
    chk!(nd, "C12.gcd_extended.canonical", s <= m && t <= m && g <= m);
    let ax = (x as u64).wrapping_mul(s);
    let by = (y as u64).wrapping_mul(t);
    let lhs = if sign { ax.wrapping_sub(by) } else { by.wrapping_sub(ax) } & m;
    cov!(nd, "sign-true", sign && y != 0 && x != 0);
    cov!(nd, "sign-false", !sign && y != 0 && x != 0);
    chk!(nd, "C12.gcd_extended.bezout", lhs == g);
}

/// Lehmer update matrix for a >= b: identity, or maps (a, b) to (c, d) with c >= d, d < b, gcd preserved
pub fn matrix_narrow<const B: usize>(nd: &mut Nd) {
    let (x, y, a, b) = pair::<B>(nd);
    nd.assume(x >= y);
    let m = LehmerMatrix::from(a, b);
    let (mut c, mut d) = (a, b);
    if m == LehmerMatrix::IDENTITY {
        cov!(nd, "identity", true);
    } else {
        m.apply(&mut c, &mut d);
        let (c, d) = (c.as_limbs()[0], d.as_limbs()[0]);
        cov!(nd, "progress", true);
        chk!(nd, "C12.matrix.ordered", c >= d);
        chk!(nd, "C12.matrix.progress", d < y as u64);
        chk!(nd, "C12.matrix.canonical", c <= 0xff && d <= 0xff);
        chk!(nd, "C12.matrix.gcd", ref_gcd(c as u8, d as u8) == ref_gcd(x, y));
    }
}

/// C10: inv_mod(a, m) = Some(i) with i < m, a*i = 1 (mod m) exactly when m >= 2 and gcd(a, m) = 1
pub fn inv_mod_narrow<const B: usize>(nd: &mut Nd) {
    let (x, y, a, md) = pair::<B>(nd);
    let got = a.inv_mod(md).map(|v| v.as_limbs()[0]);
    let exists = y >= 2 && ref_gcd(x, y) == 1;
    cov!(nd, "exists", exists && x > 1);
    cov!(nd, "unreduced", exists && x > y);
    match got {
        Some(i) => {
            chk!(nd, "C10.inv_mod.some", exists);
            chk!(nd, "C10.inv_mod.range", i < y as u64);
            if exists && i < y as u64 {
                chk!(nd, "C10.inv_mod.inverse", ((x as u16 * i as u16) % y as u16) == 1);
            }
        }
        None => chk!(nd, "C10.inv_mod.none", !exists),
    }
}
