//! C04 — values stay canonical; equality, hashing and ordering follow the
//! numeric value.  (Canonicity of the results of the other properties'
//! operations is asserted inside those properties' harnesses; here: the
//! comparison surface, constants, rejecting constructors, generators and a
//! closure sweep over producers that have no harness of their own.)

use crate::nd::Nd;
use crate::refm;
use core::cmp::Ordering;
use core::hash::{Hash, Hasher};
use ruint::Uint;

/// records the byte stream a value feeds its Hasher (folded, order-sensitive)
struct Rec {
    acc: u64,
    n: u64,
}
impl Hasher for Rec {
    fn finish(&self) -> u64 {
        self.acc ^ self.n
    }
    fn write(&mut self, bytes: &[u8]) {
        let mut i = 0;
        while i < bytes.len() {
            self.acc = self.acc.rotate_left(9) ^ (bytes[i] as u64).wrapping_add(self.n);
            self.n += 1;
            i += 1;
        }
    }
}

fn rec<const B: usize, const L: usize>(v: &Uint<B, L>) -> u64 {
    let mut h = Rec { acc: 0, n: 0 };
    v.hash(&mut h);
    h.finish()
}

/// ==, !=, cmp, partial_cmp, < <= > >=, min, max, is_zero, Hash on FULL pairs
pub fn order<const B: usize, const L: usize>(nd: &mut Nd) {
    let a: Uint<B, L> = nd.uint();
    let b: Uint<B, L> = nd.uint();
    let c = refm::cmp(a.as_limbs(), b.as_limbs());
    let want = match c {
        -1 => Ordering::Less,
        0 => Ordering::Equal,
        _ => Ordering::Greater,
    };
    cov!(nd, "equal", c == 0);
    cov!(nd, "less", c < 0);
    chk!(nd, "C04.eq", (a == b) == (c == 0));
    chk!(nd, "C04.ne", (a != b) == (c != 0));
    chk!(nd, "C04.cmp", a.cmp(&b) == want);
    chk!(nd, "C04.partial_cmp", a.partial_cmp(&b) == Some(want));
    chk!(nd, "C04.lt", (a < b) == (c < 0));
    chk!(nd, "C04.le", (a <= b) == (c <= 0));
    chk!(nd, "C04.gt", (a > b) == (c > 0));
    chk!(nd, "C04.ge", (a >= b) == (c >= 0));
    let (mn, mx) = (a.min(b), a.max(b));
    chk!(nd, "C04.min", refm::eq(mn.as_limbs(), if c <= 0 { a.as_limbs() } else { b.as_limbs() }));
    chk!(nd, "C04.max", refm::eq(mx.as_limbs(), if c >= 0 { a.as_limbs() } else { b.as_limbs() }));
    chk!(nd, "C04.is_zero", a.is_zero() == refm::is_zero(a.as_limbs()));
    if c == 0 {
        chk!(nd, "C04.hash.equal_values_equal_streams", rec(&a) == rec(&b));
    }
}

/// constants are canonical and have their documented values
pub fn constants<const B: usize, const L: usize>(nd: &mut Nd) {
    let k = nd.upto(L);
    let zero = Uint::<B, L>::ZERO;
    let one = Uint::<B, L>::ONE;
    let min = Uint::<B, L>::MIN;
    let max = Uint::<B, L>::MAX;
    let def = Uint::<B, L>::default();
    chk!(nd, "C04.const.zero", refm::is_zero(zero.as_limbs()) && refm::is_zero(min.as_limbs()) && refm::is_zero(def.as_limbs()));
    chk!(nd, "C04.const.max", refm::eq(max.as_limbs(), &refm::max::<L>(B)));
    if k < L {
        let want = if k == 0 && B > 0 { 1 } else { 0 };
        chk!(nd, "C04.const.one", one.as_limbs()[k] == want);
    }
    chk!(nd, "C04.const.meta", Uint::<B, L>::BITS == B && Uint::<B, L>::LIMBS == L && Uint::<B, L>::MASK == refm::mask(B)
        && Uint::<B, L>::BYTES == (B + 7) / 8);
}

/// from_limbs keeps canonical arrays unchanged
pub fn from_limbs_ok<const B: usize, const L: usize>(nd: &mut Nd) {
    let l: [u64; L] = nd.limbs();
    nd.assume(refm::canonical(&l, B));
    let v = Uint::<B, L>::from_limbs(l);
    chk!(nd, "C04.from_limbs.value", refm::eq(v.as_limbs(), &l) && refm::eq(&v.into_limbs(), &l));
}

/// from_limbs rejects (panics on) every non-canonical array (never returns)
pub fn from_limbs_bad<const B: usize, const L: usize>(nd: &mut Nd) {
    let l: [u64; L] = nd.limbs();
    nd.assume(!refm::canonical(&l, B));
    cov!(nd, "before-call", true);
    let _ = Uint::<B, L>::from_limbs(l);
    cov!(nd, "returned", true);
}

/// a nondeterministic random number generator: every output is arbitrary
pub struct AnyRng;

#[cfg(kani)]
fn any_u64() -> u64 {
    kani::any()
}
#[cfg(not(kani))]
fn any_u64() -> u64 {
    // natively (replay) any fixed stream will do: all-ones is the interesting corner
    u64::MAX
}

impl rand_08::RngCore for AnyRng {
    fn next_u32(&mut self) -> u32 {
        any_u64() as u32
    }
    fn next_u64(&mut self) -> u64 {
        any_u64()
    }
    fn fill_bytes(&mut self, dest: &mut [u8]) {
        let mut i = 0;
        while i < dest.len() {
            dest[i] = any_u64() as u8;
            i += 1;
        }
    }
    fn try_fill_bytes(&mut self, dest: &mut [u8]) -> Result<(), rand_08::Error> {
        self.fill_bytes(dest);
        Ok(())
    }
}

impl rand_09::RngCore for AnyRng {
    fn next_u32(&mut self) -> u32 {
        any_u64() as u32
    }
    fn next_u64(&mut self) -> u64 {
        any_u64()
    }
    fn fill_bytes(&mut self, dest: &mut [u8]) {
        let mut i = 0;
        while i < dest.len() {
            dest[i] = any_u64() as u8;
            i += 1;
        }
    }
}

/// rand 0.8 / 0.9 generators only produce canonical values, for every RNG output stream
pub fn rand_generators<const B: usize, const L: usize>(nd: &mut Nd) {
    use rand_08::distributions::Distribution as _;
    use rand_09::distr::Distribution as _;
    let mut rng = AnyRng;
    let v: Uint<B, L> = rand_08::distributions::Standard.sample(&mut rng);
    chk!(nd, "C04.rand08.standard", refm::canonical(v.as_limbs(), B));
    let v: Uint<B, L> = rand_09::distr::StandardUniform.sample(&mut rng);
    chk!(nd, "C04.rand09.standard_uniform", refm::canonical(v.as_limbs(), B));
    let v = Uint::<B, L>::random_with(&mut rng);
    chk!(nd, "C04.random_with", refm::canonical(v.as_limbs(), B));
    let mut w: Uint<B, L> = nd.uint();
    w.randomize_with(&mut rng);
    chk!(nd, "C04.randomize_with", refm::canonical(w.as_limbs(), B));
}

/// arbitrary::Arbitrary over symbolic bytes only produces canonical values
pub fn arbitrary_generator<const B: usize, const L: usize, const NX: usize>(nd: &mut Nd) {
    use arbitrary::{Arbitrary, Unstructured};
    let bytes: [u8; NX] = nd.bytes();
    let len = nd.upto(NX);
    let mut u = Unstructured::new(&bytes[..len]);
    match Uint::<B, L>::arbitrary(&mut u) {
        Ok(v) => chk!(nd, "C04.arbitrary", refm::canonical(v.as_limbs(), B)),
        Err(e) => core::mem::forget(e),
    }
}

/// closure sweep: producers without a harness of their own, FULL inputs
pub fn closure<const B: usize, const L: usize>(nd: &mut Nd) {
    let a: Uint<B, L> = nd.uint();
    let b: Uint<B, L> = nd.uint();
    let s = nd.usize();
    let v = nd.bool();
    macro_rules! canon {
        ($label:literal, $e:expr) => {{
            let r: Uint<B, L> = $e;
            chk!(nd, $label, refm::canonical(r.as_limbs(), B));
        }};
    }
    canon!("C04.closure.saturating_add", a.saturating_add(b));
    canon!("C04.closure.saturating_sub", a.saturating_sub(b));
    canon!("C04.closure.abs_diff", a.abs_diff(b));
    canon!("C04.closure.wrapping_neg", a.wrapping_neg());
    canon!("C04.closure.not", !a);
    canon!("C04.closure.xor", a ^ b);
    canon!("C04.closure.saturating_shl", a.saturating_shl(s));
    canon!("C04.closure.arithmetic_shr", a.arithmetic_shr(s));
    canon!("C04.closure.reverse_bits", a.reverse_bits());
    canon!("C04.closure.min", a.min(b));
    canon!("C04.closure.max", a.max(b));
    let mut w = a;
    w.set_bit(s, v);
    canon!("C04.closure.set_bit", w);
    if let Some(p) = a.checked_next_power_of_two() {
        canon!("C04.closure.next_power_of_two", p);
    }
    canon!("C04.closure.saturating_from_u128", Uint::<B, L>::saturating_from(s as u128));
    canon!("C04.closure.wrapping_from_i64", Uint::<B, L>::wrapping_from(s as i64));
}

/// multiplication-family producers at a narrow width: results are canonical (every operand value)
pub fn closure_narrow<const B: usize>(nd: &mut Nd) {
    let m: u64 = (1u64 << B) - 1;
    let a = Uint::<B, 1>::from_limbs([(nd.u8() as u64) & m]);
    let b = Uint::<B, 1>::from_limbs([(nd.u8() as u64) & m]);
    macro_rules! canon {
        ($label:literal, $e:expr) => {{
            let r: Uint<B, 1> = $e;
            chk!(nd, $label, r.as_limbs()[0] <= m);
        }};
    }
    if let Some(i) = a.inv_ring() {
        canon!("C04.closure.inv_ring", i);
    }
    canon!("C04.closure.wrapping_mul", a.wrapping_mul(b));
    canon!("C04.closure.saturating_mul", a.saturating_mul(b));
    canon!("C04.closure.overflowing_mul", a.overflowing_mul(b).0);
}

/// decoder-side producers: whatever a parser / digit decoder / slice decoder accepts is canonical (no value oracle here;
/// the values are decided in C07/C08/C09).  W = 0: u64 digit strings of symbolic length 0..=3 in a base chosen from
/// {3, 10, 1000, 2^32}, little and big endian; W = 1: ASCII strings of symbolic length 0..=3 in radix 10 or 36;
/// W = 2: byte slices of symbolic length 0..=BYTES+1 and two-limb slices.
pub fn closure_decoders<const B: usize, const L: usize, const NB1: usize, const W: usize>(nd: &mut Nd) {
    macro_rules! canon {
        ($label:literal, $e:expr) => {{
            let r: Option<Uint<B, L>> = $e;
            if let Some(r) = r {
                chk!(nd, $label, refm::canonical(r.as_limbs(), B));
            }
        }};
    }
    if W == 0 {
        let d = [nd.u64(), nd.u64(), nd.u64()];
        let n = nd.upto(3);
        let base: u64 = match nd.u8() & 3 {
            0 => 3,
            1 => 10,
            2 => 1000,
            _ => 1 << 32,
        };
        cov!(nd, "accepts", n == 3 && Uint::<B, L>::from_base_be(base, d[..n].iter().copied()).is_ok());
        canon!("C04.closure.from_base_be", Uint::<B, L>::from_base_be(base, d[..n].iter().copied()).ok());
        canon!("C04.closure.from_base_le", Uint::<B, L>::from_base_le(base, d[..n].iter().copied()).ok());
        canon!("C04.closure.checked_from_limbs_slice", Uint::<B, L>::checked_from_limbs_slice(&d[..2]));
    } else if W == 1 {
        let s = [nd.u8() & 0x7f, nd.u8() & 0x7f, nd.u8() & 0x7f];
        let n = nd.upto(3);
        let radix: u64 = if nd.bool() { 10 } else { 36 };
        // ASCII by construction (every byte < 0x80): no UTF-8 validation loop in the harness
        let txt = unsafe { core::str::from_utf8_unchecked(&s[..n]) };
        cov!(nd, "accepts", n == 3 && Uint::<B, L>::from_str_radix(txt, radix).is_ok());
        canon!("C04.closure.from_str_radix", Uint::<B, L>::from_str_radix(txt, radix).ok());
    } else {
        let bytes: [u8; NB1] = nd.bytes();
        let blen = nd.upto(NB1);
        cov!(nd, "accepts", blen == NB1 - 1 && Uint::<B, L>::try_from_be_slice(&bytes[..blen]).is_some());
        canon!("C04.closure.try_from_be_slice", Uint::<B, L>::try_from_be_slice(&bytes[..blen]));
        canon!("C04.closure.try_from_le_slice", Uint::<B, L>::try_from_le_slice(&bytes[..blen]));
    }
}
