//! C11 — Montgomery multiplication and squaring (LATTICE domains around the
//! 2^62 / 2^63 carry thresholds; weak fit, see DESIGN 5/C11).

use crate::nd::Nd;
use ruint::algorithms as alg;
use ruint::Uint;

/// -m^-1 mod 2^64 by Newton iteration (independent of the library)
#[inline(always)]
fn neg_inv(m: u64) -> u64 {
    let mut x = m.wrapping_mul(3) ^ 2; // 4 bits... correct mod 2^4 for odd m
    let mut i = 0;
    while i < 5 {
        x = x.wrapping_mul(2u64.wrapping_sub(m.wrapping_mul(x)));
        i += 1;
    }
    x.wrapping_neg()
}

/// odd modulus around a threshold: base in {2^62-32, 2^62, 2^63-32, 2^63, 2^64-32} + 2*x + 1
#[inline(always)]
fn modulus(sel: u8, x: u8) -> u64 {
    let base: u64 = match sel % 5 {
        0 => (1 << 62) - 32,
        1 => 1 << 62,
        2 => (1 << 63) - 32,
        3 => 1 << 63,
        _ => u64::MAX - 31,
    };
    base + 2 * (x & 0x3) as u64 + 1
}

/// operand below m: small or m - 1 - small
#[inline(always)]
fn operand(m: u64, hi: bool, y: u8) -> u64 {
    if hi {
        m - 1 - (y & 0x3) as u64
    } else {
        (y & 0x3) as u64
    }
}

/// N = 1: r < m and a*b + k*m = r*2^64 (or (r+m)*2^64 before the final subtraction), k = a*b*inv mod 2^64
pub fn redc1<const W: usize>(nd: &mut Nd) {
    let m = modulus(nd.u8(), nd.u8());
    let a = operand(m, nd.bool(), nd.u8());
    let b = operand(m, nd.bool(), nd.u8());
    let inv = neg_inv(m);
    nd.assume(inv.wrapping_mul(m) == u64::MAX);
    let r = alg::mul_redc([a], [b], [m], inv)[0];
    // specification: r*2^64 = a*b + k*m - (0 or m*2^64), with the products the definition names
    let ab = (a as u128) * (b as u128);
    let k = (ab as u64).wrapping_mul(inv);
    let km = (m as u128) * (k as u128);
    let (s, c) = ab.overflowing_add(km);
    chk!(nd, "C11.redc1.low_word_cleared", s as u64 == 0);
    let t: u128 = (s >> 64) | ((c as u128) << 64); // (a*b + k*m) / 2^64  < 2m
    let want = if t >= m as u128 { t - m as u128 } else { t };
    cov!(nd, "subtract-taken", t >= m as u128);
    cov!(nd, "extra-carry", c);
    chk!(nd, "C11.redc1.range", r < m);
    chk!(nd, "C11.redc1.value", r as u128 == want);
    if W == 0 {
        return;
    }
    // squaring agrees
    let q = alg::square_redc([a], [m], inv)[0];
    let aa = (a as u128) * (a as u128);
    let k2 = (aa as u64).wrapping_mul(inv);
    let (s2, c2) = aa.overflowing_add((m as u128) * (k2 as u128));
    let t2: u128 = (s2 >> 64) | ((c2 as u128) << 64);
    let want2 = if t2 >= m as u128 { t2 - m as u128 } else { t2 };
    chk!(nd, "C11.square_redc1.value", q as u128 == want2 && q < m);
    // the Uint methods return the slice-level result
    let (ua, ub, um) = (Uint::<64, 1>::from_limbs([a]), Uint::<64, 1>::from_limbs([b]), Uint::<64, 1>::from_limbs([m]));
    chk!(nd, "C11.uint.mul_redc", ua.mul_redc(ub, um, inv).as_limbs()[0] == r);
    chk!(nd, "C11.uint.square_redc", ua.square_redc(um, inv).as_limbs()[0] == q);
}

const fn neg_inv_const(m: u64) -> u64 {
    let mut x = m.wrapping_mul(3) ^ 2;
    let mut i = 0;
    while i < 5 {
        x = x.wrapping_mul(2u64.wrapping_sub(m.wrapping_mul(x)));
        i += 1;
    }
    x.wrapping_neg()
}
const fn neg_inv_table() -> [u64; 128] {
    let mut t = [0u64; 128];
    let mut i = 0;
    while i < 128 {
        t[i] = neg_inv_const(2 * i as u64 + 1);
        i += 1;
    }
    t
}
/// -m^-1 mod 2^64 for odd m < 256, evaluated at compile time (a table read instead of five dependent 64-bit products)
static NEG_INV: [u64; 128] = neg_inv_table();

const fn r64_table() -> [u16; 128] {
    let mut t = [0u16; 128];
    let mut i = 0;
    while i < 128 {
        let m = 2 * i as u128 + 1;
        t[i] = ((1u128 << 64) % m) as u16;
        i += 1;
    }
    t
}
/// 2^64 mod m for odd m < 256, evaluated at compile time
static R64: [u16; 128] = r64_table();

/// N = 1 on every small modulus: m odd in 3..=255 (composite moduli with zero divisors included), every a, b < m.
/// r < m and r * 2^64 = a * b (mod m), decided with u128 arithmetic on the small modulus.
pub fn redc1_small<const W: usize, const MB: usize>(nd: &mut Nd) {
    // MB = bits of the modulus (m < 2^MB)
    let m = ((nd.u8() | 1) as u64) & ((1u64 << MB) - 1);
    let a = nd.u8() as u64;
    let b = nd.u8() as u64;
    nd.assume(m >= 3 && a < m && b < m);
    let inv = NEG_INV[(m >> 1) as usize];
    // everything below fits u16: r, r64 < m <= 255 (16-bit dividers instead of 64-bit ones)
    let r64 = R64[(m >> 1) as usize];
    let m16 = m as u16;
    let ab = ((a * b) as u16) % m16;
    cov!(nd, "zero-divisors", a != 0 && b != 0 && ab == 0);
    let r = if W == 0 {
        alg::mul_redc([a], [b], [m], inv)[0]
    } else {
        nd.assume(a == b);
        alg::square_redc([a], [m], inv)[0]
    };
    chk!(nd, "C11.redc1_small.range", r < m);
    if r < m {
        chk!(nd, "C11.redc1_small.value", ((r as u16) * r64) % m16 == ab);
    }
}

/// lattice word: one of {0, 2^62, 2^63, 2^64-1} plus/minus a 2-bit offset (4 free bits)
#[inline(always)]
fn lat4(sel: u8) -> u64 {
    let off = (sel & 3) as u64;
    match (sel >> 2) & 3 {
        0 => off,
        1 => (1 << 62) + off,
        2 => (1 << 63) + off,
        _ => u64::MAX - off,
    }
}

const fn neg_inv_top_table() -> [u64; 4] {
    // -m0^-1 mod 2^64 for m0 = 2^64 - 1 - 2x, x = 0..=3
    [
        neg_inv_const(u64::MAX),
        neg_inv_const(u64::MAX - 2),
        neg_inv_const(u64::MAX - 4),
        neg_inv_const(u64::MAX - 6),
    ]
}
static NEG_INV_TOP: [u64; 4] = neg_inv_top_table();

/// N = 2, differential: square_redc(a) = mul_redc(a, a), both below m, on a 14-free-bit lattice (limbs near 0, 2^62, 2^63
/// and 2^64-1, i.e. around every carry threshold of the row loops).  Weaker than the N = 1 oracle - it does not say what the
/// common value is - but it separates the two independent implementations of the same product.
pub fn redc2_diff(nd: &mut Nd) {
    let x = (nd.u8() & 3) as usize;
    let m0 = u64::MAX - 2 * x as u64;
    let m1 = lat4(nd.u8());
    let a0 = lat4(nd.u8());
    let a1 = lat4(nd.u8());
    nd.assume(m1 != 0);
    nd.assume(a1 < m1 || (a1 == m1 && a0 < m0));
    let inv = NEG_INV_TOP[x];
    let s = alg::square_redc([a0, a1], [m0, m1], inv);
    let p = alg::mul_redc([a0, a1], [a0, a1], [m0, m1], inv);
    cov!(nd, "top-limb-high", m1 >= 1 << 63);
    cov!(nd, "top-limb-low", m1 < 1 << 62);
    chk!(nd, "C11.redc2.square_equals_mul", s[0] == p[0] && s[1] == p[1]);
    chk!(nd, "C11.redc2.range", s[1] < m1 || (s[1] == m1 && s[0] < m0));
}
