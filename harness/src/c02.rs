//! C02 — multiplication is exact: wrapping, overflow flag, widening product,
//! ring inverse, iterator products.

use crate::nd::Nd;
use crate::refm;
use crate::uf;
use ruint::Uint;

/// full product over `umul` into W = 2L+1 limbs
#[inline(always)]
fn full<const L: usize, const W: usize>(a: &[u64; L], b: &[u64; L]) -> [u64; W] {
    let mut acc = [0u64; W];
    let _ = uf::school::<W>(&mut acc, a, b);
    acc
}

/// (low B bits, "a*b >= 2^B") of a W-limb product
#[inline(always)]
fn split<const L: usize, const W: usize>(bits: usize, p: &[u64; W]) -> ([u64; L], bool) {
    let mut lo = [0u64; L];
    let mut over = false;
    let mut i = 0;
    while i < W {
        if i < L {
            lo[i] = p[i];
        } else {
            over |= p[i] != 0;
        }
        i += 1;
    }
    over |= !refm::canonical(&lo, bits);
    (refm::masked(lo, bits), over)
}

/// UF layer: overflowing_mul (generic trimming path), FULL operands
pub fn overflowing_uf<const B: usize, const L: usize, const W: usize>(nd: &mut Nd) {
    let a: Uint<B, L> = nd.uint();
    let b: Uint<B, L> = nd.uint();
    uf::declare_all(a.as_limbs(), b.as_limbs());
    let p = full::<L, W>(a.as_limbs(), b.as_limbs());
    let (lo, over) = split::<L, W>(B, &p);
    cov!(nd, "overflows", over);
    cov!(nd, "fits-nonzero", !over && !refm::is_zero(&lo));
    let (r, o) = a.overflowing_mul(b);
    chk!(nd, "C02.overflowing_mul.value", refm::eq(r.as_limbs(), &lo));
    chk!(nd, "C02.overflowing_mul.flag", o == over);
}

/// UF layer: wrapping_mul (unrolled 1..4-limb paths / generic above), FULL operands
pub fn wrapping_uf<const B: usize, const L: usize, const W: usize>(nd: &mut Nd) {
    let a: Uint<B, L> = nd.uint();
    let b: Uint<B, L> = nd.uint();
    uf::declare_all(a.as_limbs(), b.as_limbs());
    let p = full::<L, W>(a.as_limbs(), b.as_limbs());
    let (lo, _) = split::<L, W>(B, &p);
    let r = a.wrapping_mul(b);
    chk!(nd, "C02.wrapping_mul.value", refm::eq(r.as_limbs(), &lo));
}

/// UF layer: widening_mul, result exactly the full product
pub fn widening_uf<
    const B1: usize,
    const L1: usize,
    const B2: usize,
    const L2: usize,
    const BR: usize,
    const LR: usize,
    const W: usize,
>(
    nd: &mut Nd,
) {
    let a: Uint<B1, L1> = nd.uint();
    let b: Uint<B2, L2> = nd.uint();
    uf::declare_all(a.as_limbs(), b.as_limbs());
    let mut p = [0u64; W];
    let _ = uf::school::<W>(&mut p, a.as_limbs(), b.as_limbs());
    let r: Uint<BR, LR> = a.widening_mul(b);
    let mut ok = true;
    let mut i = 0;
    while i < W {
        if i < LR {
            ok &= r.as_limbs()[i] == p[i];
        } else {
            ok &= p[i] == 0;
        }
        i += 1;
    }
    chk!(nd, "C02.widening_mul.value", ok);
    chk!(nd, "C02.widening_mul.canonical", refm::canonical(r.as_limbs(), BR));
}

// ---- glue: checked / saturating / operators / Product relative to the two
// multipliers, which are stubbed by tagged mixing functions (stubs.rs)

pub fn glue<const B: usize, const L: usize>(nd: &mut Nd) {
    let a: Uint<B, L> = nd.uint();
    let b: Uint<B, L> = nd.uint();
    let c: Uint<B, L> = nd.uint();
    let n = nd.upto(3);
    let (ov, of) = a.overflowing_mul(b);
    let wr = a.wrapping_mul(b);
    match a.checked_mul(b) {
        Some(x) => chk!(nd, "C02.checked_mul.some", !of && x == ov),
        None => chk!(nd, "C02.checked_mul.none", of),
    }
    let s = a.saturating_mul(b);
    chk!(nd, "C02.saturating_mul", s == if of { Uint::<B, L>::MAX } else { ov });
    chk!(nd, "C02.op.mul.vv", a * b == wr);
    chk!(nd, "C02.op.mul.vr", a * &b == wr);
    chk!(nd, "C02.op.mul.rv", &a * b == wr);
    chk!(nd, "C02.op.mul.rr", &a * &b == wr);
    let mut x = a;
    x *= b;
    chk!(nd, "C02.op.mul_assign.v", x == wr);
    let mut x = a;
    x *= &b;
    chk!(nd, "C02.op.mul_assign.r", x == wr);
    // iterator products = left fold of wrapping_mul from ONE (ZERO for BITS = 0)
    let xs = [a, b, c];
    let mut want = if B == 0 { Uint::<B, L>::ZERO } else { Uint::<B, L>::from_limbs(one::<L>()) };
    let mut i = 0;
    while i < 3 {
        if i < n && B > 0 {
            want = want.wrapping_mul(xs[i]);
        }
        i += 1;
    }
    let p1: Uint<B, L> = xs[..n].iter().copied().product();
    let p2: Uint<B, L> = xs[..n].iter().product();
    chk!(nd, "C02.product.by_value", p1 == want);
    chk!(nd, "C02.product.by_ref", p2 == want);
}

#[inline(always)]
fn one<const L: usize>() -> [u64; L] {
    let mut l = [0u64; L];
    if L > 0 {
        l[0] = 1;
    }
    l
}

// ---- real multipliers on narrow widths (B <= 16): everything against u64 arithmetic

pub fn narrow<const B: usize>(nd: &mut Nd) {
    let m: u64 = if B == 0 { 0 } else { (1u64 << B) - 1 };
    let x = (nd.u16() as u64) & m;
    let y = (nd.u16() as u64) & m;
    let a = Uint::<B, 1>::from_limbs([x]);
    let b = Uint::<B, 1>::from_limbs([y]);
    let p = x * y; // < 2^32
    let over = p > m;
    let (r, o) = a.overflowing_mul(b);
    chk!(nd, "C02.narrow.overflowing_mul", r.as_limbs()[0] == p & m && o == over);
    chk!(nd, "C02.narrow.wrapping_mul", a.wrapping_mul(b).as_limbs()[0] == p & m);
    chk!(nd, "C02.narrow.checked_mul", a.checked_mul(b).map(|v| v.as_limbs()[0]) == if over { None } else { Some(p) });
    chk!(nd, "C02.narrow.saturating_mul", a.saturating_mul(b).as_limbs()[0] == if over { m } else { p });
    chk!(nd, "C02.narrow.op", (a * b).as_limbs()[0] == p & m);
}

/// inv_ring returns None for every even value (and for BITS = 0).  The
/// Some branch - five dependent 64-bit Newton steps guarded by a
/// `debug_assert_eq!(n * inv, 1)` - does not finish under CBMC at any width
/// (measured: > 600 s at 16 and 65 bits) and is outside the claim.
pub fn inv_ring_even<const B: usize, const L: usize>(nd: &mut Nd) {
    let a: Uint<B, L> = nd.uint();
    nd.assume(L == 0 || a.as_limbs()[0] & 1 == 0);
    chk!(nd, "C02.inv_ring.some_for_even", a.inv_ring().is_none());
}

/// inv_ring on every value of a narrow width: Some(i) (canonical, a*i = 1 mod 2^B) exactly for odd a
pub fn inv_ring_narrow<const B: usize>(nd: &mut Nd) {
    let m: u64 = (1u64 << B) - 1;
    let x = (nd.u8() as u64) & m;
    let a = Uint::<B, 1>::from_limbs([x]);
    match a.inv_ring() {
        Some(i) => {
            let iv = i.as_limbs()[0];
            chk!(nd, "C02.inv_ring.canonical", iv <= m);
            chk!(nd, "C02.inv_ring.some", x & 1 == 1 && (x.wrapping_mul(iv)) & m == 1);
        }
        None => chk!(nd, "C02.inv_ring.none", x & 1 == 0),
    }
}

// ---- LATTICE operands, real multipliers, any limb count: every limb is one of eight boundary words chosen
// by three free bits (0, 1, 2, 2^32-1, 2^32, 2^63, 2^64-2, 2^64-1), the top limb masked to the width.  Decides
// the limb-level structure (zero trimming of leading/middle/trailing limbs, operand swap, row windows, carry
// chains through all-ones limbs, overflow flag) at shapes the UF layer does not reach (>= 4 limbs).

#[inline(always)]
pub fn lat_word(nd: &mut Nd) -> u64 {
    match nd.u8() & 7 {
        0 => 0,
        1 => 1,
        2 => u64::MAX,
        3 => 1 << 63,
        4 => 1 << 32,
        5 => u64::MAX - 1,
        6 => 0xffff_ffff,
        _ => 2,
    }
}

#[inline(always)]
pub fn lat_limbs<const L: usize>(nd: &mut Nd, bits: usize) -> [u64; L] {
    let mut l = [0u64; L];
    let mut i = 0;
    while i < L {
        l[i] = lat_word(nd);
        i += 1;
    }
    refm::masked(l, bits)
}

pub fn mul_lattice<const B: usize, const L: usize, const W: usize>(nd: &mut Nd) {
    let a = Uint::<B, L>::from_limbs(lat_limbs::<L>(nd, B));
    let b = Uint::<B, L>::from_limbs(lat_limbs::<L>(nd, B));
    let mut p = [0u64; W];
    let _ = uf::school_real::<W>(&mut p, a.as_limbs(), b.as_limbs());
    let (lo, over) = split::<L, W>(B, &p);
    cov!(nd, "overflows", over);
    cov!(nd, "fits-nonzero", !over && !refm::is_zero(&lo));
    cov!(nd, "zero-middle-limb", L >= 3 && a.as_limbs()[1] == 0 && a.as_limbs()[0] != 0 && a.as_limbs()[L - 1] != 0);
    let (r, o) = a.overflowing_mul(b);
    chk!(nd, "C02.overflowing_mul.value", refm::eq(r.as_limbs(), &lo));
    chk!(nd, "C02.overflowing_mul.flag", o == over);
    let w = a.wrapping_mul(b);
    chk!(nd, "C02.wrapping_mul.value", refm::eq(w.as_limbs(), &lo));
}

pub fn widening_lattice<
    const B1: usize,
    const L1: usize,
    const B2: usize,
    const L2: usize,
    const BR: usize,
    const LR: usize,
    const W: usize,
>(
    nd: &mut Nd,
) {
    let a = Uint::<B1, L1>::from_limbs(lat_limbs::<L1>(nd, B1));
    let b = Uint::<B2, L2>::from_limbs(lat_limbs::<L2>(nd, B2));
    let mut p = [0u64; W];
    let _ = uf::school_real::<W>(&mut p, a.as_limbs(), b.as_limbs());
    let r: Uint<BR, LR> = a.widening_mul(b);
    let mut ok = true;
    let mut i = 0;
    while i < W {
        if i < LR {
            ok &= r.as_limbs()[i] == p[i];
        } else {
            ok &= p[i] == 0;
        }
        i += 1;
    }
    chk!(nd, "C02.widening_mul.value", ok);
    chk!(nd, "C02.widening_mul.canonical", refm::canonical(r.as_limbs(), BR));
}

/// overflowing_mul / wrapping_mul on the "unit-limb" sub-domain: every limb of one operand is 0 or 1, the other operand
/// is FULL, one harness per operand order.  UF layer as above, but here every product is fixed by the axioms 0*x = 0 and 1*x = x,
/// so the abstraction is exact and counterexamples reproduce natively; reaches limb counts the FULL-domain UF harnesses
/// do not, and decides the limb-level structure there (zero trimming incl. middle limbs, operand swap, row windows,
/// carry chains, overflow flag, masking).
pub fn mul_unit<const B: usize, const L: usize, const W: usize, const SWAP: usize>(nd: &mut Nd) {
    let mut al = [0u64; L];
    let mut i = 0;
    while i < L {
        al[i] = (nd.u8() & 1) as u64;
        i += 1;
    }
    let a = Uint::<B, L>::from_limbs(refm::masked(al, B));
    let b: Uint<B, L> = nd.uint();
    let swap = SWAP != 0; // one harness per operand order
    // (no table: on this sub-domain every product is fixed by the unit axioms, which `umul` also applies to unknown keys)
    let mut p = [0u64; W];
    let _ = uf::school::<W>(&mut p, a.as_limbs(), b.as_limbs());
    let (lo, over) = split::<L, W>(B, &p);
    cov!(nd, "overflows", over);
    cov!(nd, "fits-nonzero", !over && !refm::is_zero(&lo));
    let (x, y) = if swap { (b, a) } else { (a, b) };
    let (r, o) = x.overflowing_mul(y);
    chk!(nd, "C02.overflowing_mul.value", refm::eq(r.as_limbs(), &lo));
    chk!(nd, "C02.overflowing_mul.flag", o == over);
    let w = x.wrapping_mul(y);
    chk!(nd, "C02.wrapping_mul.value", refm::eq(w.as_limbs(), &lo));
}

/// widening_mul on the unit-limb sub-domain (exact, see `mul_unit`)
pub fn widening_unit<
    const B1: usize,
    const L1: usize,
    const B2: usize,
    const L2: usize,
    const BR: usize,
    const LR: usize,
    const W: usize,
>(
    nd: &mut Nd,
) {
    let mut al = [0u64; L1];
    let mut i = 0;
    while i < L1 {
        al[i] = (nd.u8() & 1) as u64;
        i += 1;
    }
    let a = Uint::<B1, L1>::from_limbs(refm::masked(al, B1));
    let b: Uint<B2, L2> = nd.uint();
    let mut p = [0u64; W];
    let _ = uf::school::<W>(&mut p, a.as_limbs(), b.as_limbs());
    let r: Uint<BR, LR> = a.widening_mul(b);
    let mut ok = true;
    let mut i = 0;
    while i < W {
        if i < LR {
            ok &= r.as_limbs()[i] == p[i];
        } else {
            ok &= p[i] == 0;
        }
        i += 1;
    }
    chk!(nd, "C02.widening_mul.value", ok);
    chk!(nd, "C02.widening_mul.canonical", refm::canonical(r.as_limbs(), BR));
}
