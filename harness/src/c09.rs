//! C09 — radix conversion and parsing agree with positional notation
//! (formatting through core::fmt is outside reach, see DESIGN 6).

use crate::nd::Nd;
use crate::refm;
use ruint::{BaseConvertError, ParseError, Uint};

#[derive(PartialEq, Eq, Clone, Copy)]
enum RefErr {
    InvalidRadix,
    InvalidBase,
    DigitTooLarge(u64),
    Overflow,
    InvalidChar(u8),
}

/// reference parser for ASCII input, following the documented alphabets
#[inline(always)]
fn ref_parse<const N: usize>(bits: usize, s: &[u8; N], len: usize, radix: u64) -> Result<u128, RefErr> {
    if radix > 64 {
        return Err(RefErr::InvalidRadix);
    }
    if radix < 2 {
        return Err(RefErr::InvalidBase);
    }
    let mut value: u128 = 0;
    let mut pending: Option<u8> = None;
    let mut i = 0;
    while i < N {
        if i < len && pending.is_none() {
            let c = s[i];
            // Some(Some(d)) digit, Some(None) ignored, None invalid
            let d: Option<Option<u64>> = if radix <= 36 {
                match c {
                    b'0'..=b'9' => Some(Some((c - b'0') as u64)),
                    b'a'..=b'z' => Some(Some((c - b'a') as u64 + 10)),
                    b'A'..=b'Z' => Some(Some((c - b'A') as u64 + 10)),
                    b'_' => Some(None),
                    _ => None,
                }
            } else {
                match c {
                    b'A'..=b'Z' => Some(Some((c - b'A') as u64)),
                    b'a'..=b'z' => Some(Some((c - b'a') as u64 + 26)),
                    b'0'..=b'9' => Some(Some((c - b'0') as u64 + 52)),
                    b'+' | b'-' => Some(Some(62)),
                    b'/' | b',' | b'_' => Some(Some(63)),
                    b'=' | b'\r' | b'\n' => Some(None),
                    _ => None,
                }
            };
            match d {
                None => pending = Some(c),
                Some(None) => {}
                Some(Some(d)) => {
                    if d >= radix {
                        return Err(RefErr::DigitTooLarge(d));
                    }
                    value = value * radix as u128 + d as u128; // N <= 4 digits below 64: no overflow of u128
                    if bits < 128 && (value >> bits) != 0 {
                        return Err(RefErr::Overflow);
                    }
                }
            }
        }
        i += 1;
    }
    match pending {
        Some(c) => Err(RefErr::InvalidChar(c)),
        None => Ok(value),
    }
}

#[inline(always)]
fn same<const B: usize, const L: usize>(got: &Result<Uint<B, L>, ParseError>, want: &Result<u128, RefErr>, radix: u64) -> bool {
    match (got, want) {
        (Ok(v), Ok(w)) => {
            let lv = v.as_limbs();
            let lo: u128 = (if L > 0 { lv[0] as u128 } else { 0 }) | (if L > 1 { (lv[1] as u128) << 64 } else { 0 });
            refm::bit_len(lv) <= 128 && lo == *w && refm::canonical(lv, B)
        }
        (Err(ParseError::InvalidRadix(r)), Err(RefErr::InvalidRadix)) => *r == radix,
        (Err(ParseError::BaseConvertError(BaseConvertError::InvalidBase(b))), Err(RefErr::InvalidBase)) => *b == radix,
        (Err(ParseError::BaseConvertError(BaseConvertError::InvalidDigit(d, b))), Err(RefErr::DigitTooLarge(w))) => d == w && *b == radix,
        (Err(ParseError::BaseConvertError(BaseConvertError::Overflow)), Err(RefErr::Overflow)) => true,
        (Err(ParseError::InvalidDigit(c)), Err(RefErr::InvalidChar(w))) => *c as u32 == *w as u32,
        _ => false,
    }
}

/// from_str_radix on any ASCII string of length <= N; HI = 0: radix 0..=36, HI = 1: radix 37..=70
pub fn parse<const B: usize, const L: usize, const N: usize, const HI: usize>(nd: &mut Nd) {
    let mut s: [u8; N] = nd.bytes();
    let mut i = 0;
    while i < N {
        s[i] &= 0x7f;
        i += 1;
    }
    let len = nd.upto(N);
    let r = nd.u8() as u64;
    nd.assume(if HI == 0 { r <= 36 } else { r >= 37 && r <= 70 });
    let want = ref_parse::<N>(B, &s, len, r);
    let txt = core::str::from_utf8(&s[..len]).unwrap();
    let got = Uint::<B, L>::from_str_radix(txt, r);
    cov!(nd, "accepts", got.is_ok() && len == N);
    cov!(nd, "overflow", matches!(want, Err(RefErr::Overflow)));
    chk!(nd, "C09.from_str_radix", same::<B, L>(&got, &want, r));
}

/// FromStr: prefix sniffing on top of from_str_radix (ASCII, length <= N)
pub fn from_str<const B: usize, const L: usize, const N: usize>(nd: &mut Nd) {
    use core::str::FromStr;
    let mut s: [u8; N] = nd.bytes();
    let mut i = 0;
    while i < N {
        s[i] &= 0x7f;
        i += 1;
    }
    let len = nd.upto(N);
    let (skip, radix) = if len >= 2 && s[0] == b'0' {
        match s[1] {
            b'x' | b'X' => (2, 16),
            b'o' | b'O' => (2, 8),
            b'b' | b'B' => (2, 2),
            _ => (0, 10),
        }
    } else {
        (0, 10)
    };
    let mut rest = [0u8; N];
    let mut i = 0;
    while i < N {
        if i + skip < N {
            rest[i] = s[i + skip];
        }
        i += 1;
    }
    let want = ref_parse::<N>(B, &rest, len - skip, radix);
    let txt = core::str::from_utf8(&s[..len]).unwrap();
    let got = Uint::<B, L>::from_str(txt);
    cov!(nd, "prefixed", skip == 2);
    chk!(nd, "C09.from_str", same::<B, L>(&got, &want, radix));
}

/// to_base_le / to_base_be for a fixed base: digits < base, no superfluous
/// leading digit, Horner sum = value (ND = max digit count at this width/base)
pub fn digits<const B: usize, const L: usize, const BASE: u64, const ND: usize>(nd: &mut Nd) {
    let v: Uint<B, L> = nd.uint();
    let lv = *v.as_limbs();
    let mut it = v.to_base_le(BASE);
    let mut ds = [0u64; ND];
    let mut n = 0;
    let mut i = 0;
    let mut extra = false;
    while i <= ND {
        match it.next() {
            Some(d) => {
                if i < ND {
                    ds[i] = d;
                    n = i + 1;
                } else {
                    extra = true;
                }
            }
            None => {}
        }
        i += 1;
    }
    chk!(nd, "C09.to_base_le.too_many_digits", !extra);
    // Horner from the most significant digit, in L+1 limbs via multiply-by-constant
    let mut acc = [0u64; L];
    let mut ok = true;
    let mut lost = false;
    let mut i = ND;
    while i > 0 {
        i -= 1;
        if i < n {
            ok &= ds[i] < BASE;
            // acc = acc * BASE + ds[i]
            let mut carry: u128 = ds[i] as u128;
            let mut k = 0;
            while k < L {
                let t = acc[k] as u128 * BASE as u128 + carry;
                acc[k] = t as u64;
                carry = t >> 64;
                k += 1;
            }
            lost |= carry != 0;
        }
    }
    chk!(nd, "C09.to_base_le.digit_range", ok);
    chk!(nd, "C09.to_base_le.value", !lost && refm::eq(&acc, &lv));
    chk!(nd, "C09.to_base_le.no_leading_zero", if refm::is_zero(&lv) { n == 0 } else { n > 0 && ds[n - 1] != 0 });
    // big-endian form is the reverse
    let mut be = v.to_base_be(BASE);
    let mut okb = true;
    let mut j = 0;
    while j <= ND {
        let want = if j < n { Some(ds[n - 1 - j]) } else { None };
        okb &= be.next() == want;
        j += 1;
    }
    chk!(nd, "C09.to_base_be.reverse_of_le", okb);
}

/// from_base_le / from_base_be on digit arrays of symbolic length <= ND, fixed base
pub fn from_digits<const B: usize, const L: usize, const BASE: u64, const ND: usize>(nd: &mut Nd) {
    let ds: [u64; ND] = nd.limbs();
    let len = nd.upto(ND);
    let be = nd.bool();
    // reference value in 3 limbs (ND <= 3 digits < 2^64)
    let mut invalid = false;
    let mut acc = [0u64; 4];
    let mut i = 0;
    while i < ND {
        // most significant digit first
        let idx = if be { i } else { len.wrapping_sub(1).wrapping_sub(i) };
        if i < len {
            let d = ds[idx];
            invalid |= d >= BASE;
            let mut carry: u128 = d as u128;
            let mut k = 0;
            while k < 4 {
                let t = acc[k] as u128 * BASE as u128 + carry;
                acc[k] = t as u64;
                carry = t >> 64;
                k += 1;
            }
        }
        i += 1;
    }
    let mut fits = true;
    let mut want = [0u64; L];
    let mut k = 0;
    while k < 4 {
        if k < L {
            want[k] = acc[k];
        } else {
            fits &= acc[k] == 0;
        }
        k += 1;
    }
    fits &= refm::canonical(&want, B);
    let got = if be {
        Uint::<B, L>::from_base_be(BASE, ds[..len].iter().copied())
    } else {
        Uint::<B, L>::from_base_le(BASE, ds[..len].iter().copied())
    };
    cov!(nd, "overflow", !invalid && !fits);
    cov!(nd, "ok-full-length", got.is_ok() && len == ND);
    match got {
        Ok(v) => chk!(nd, "C09.from_base.ok", !invalid && fits && refm::eq(v.as_limbs(), &want)),
        Err(BaseConvertError::Overflow) => chk!(nd, "C09.from_base.overflow_but_fits", !fits || invalid),
        Err(BaseConvertError::InvalidDigit(d, b)) => chk!(nd, "C09.from_base.invalid_digit", invalid && d >= BASE && b == BASE),
        Err(BaseConvertError::InvalidBase(_)) => chk!(nd, "C09.from_base.invalid_base_for_valid", false),
    }
    if !invalid && fits {
        chk!(nd, "C09.from_base.valid_rejected", got.is_ok());
    }
    if !invalid && !fits {
        chk!(nd, "C09.from_base.overflow_kind", got == Err(BaseConvertError::Overflow));
    }
}

/// base 0 and 1 are rejected
pub fn invalid_base<const B: usize, const L: usize>(nd: &mut Nd) {
    let base = nd.bool() as u64;
    let d = nd.u64();
    let be = nd.bool();
    let got = if be {
        Uint::<B, L>::from_base_be(base, [d].iter().copied())
    } else {
        Uint::<B, L>::from_base_le(base, [d].iter().copied())
    };
    chk!(nd, "C09.from_base.invalid_base", got == Err(BaseConvertError::InvalidBase(base)));
}

// ---- formatting (Display/Debug/LowerHex/UpperHex/Octal/Binary), with `Formatter::pad_integral` modelled
// (stubs::pad_integral_model).  What is decided: the digit string (and prefix) that ruint hands to pad_integral
// - assembled from `to_base_be(MAX)` limbs, each printed by core's own u64 formatting with `{:0width$}` - is the
// positional notation of the value in that radix, without superfluous leading zeros, "0" for zero.  The
// width/fill/alignment handling itself is core's pad_integral, shared with the primitive integers.

pub struct Sink<const N: usize> {
    pub buf: [u8; N],
    pub len: usize,
    pub overflow: bool,
}

impl<const N: usize> core::fmt::Write for Sink<N> {
    fn write_str(&mut self, s: &str) -> core::fmt::Result {
        let b = s.as_bytes();
        if self.len + b.len() > N {
            self.overflow = true;
            return Err(core::fmt::Error);
        }
        self.buf[self.len..self.len + b.len()].copy_from_slice(b);
        self.len += b.len();
        Ok(())
    }
}

/// power-of-two radix: K bits per digit (1 binary, 3 octal, 4 hex), STYLE 0 = plain, 1 = `#`, 2 = `0` flag with width N-?;
/// UPPER selects {:X}.  N = text buffer size.
pub fn fmt_pow2<const B: usize, const L: usize, const K: usize, const UPPER: usize, const STYLE: usize, const N: usize>(nd: &mut Nd) {
    use core::fmt::Write;
    let v: Uint<B, L> = nd.uint();
    let k = nd.upto(N);
    let mut s = Sink::<N> { buf: [0u8; N], len: 0, overflow: false };
    let r = match (K, UPPER, STYLE) {
        (1, _, 0) => write!(s, "{:b}", v),
        (1, _, _) => write!(s, "{:#b}", v),
        (3, _, 0) => write!(s, "{:o}", v),
        (3, _, _) => write!(s, "{:#o}", v),
        (4, 0, 0) => write!(s, "{:x}", v),
        (4, 0, _) => write!(s, "{:#x}", v),
        (4, _, 0) => write!(s, "{:X}", v),
        _ => write!(s, "{:#X}", v),
    };
    chk!(nd, "C09.fmt.ok", r.is_ok() && !s.overflow);
    let bl = refm::bit_len(v.as_limbs());
    let nd_ = if bl == 0 { 1 } else { (bl + K - 1) / K };
    let pre = if STYLE == 0 { 0 } else { 2 };
    chk!(nd, "C09.fmt.len", s.len == pre + nd_);
    if STYLE != 0 {
        let p1 = match K {
            1 => b'b',
            3 => b'o',
            _ => b'x',
        };
        chk!(nd, "C09.fmt.prefix", s.buf[0] == b'0' && s.buf[1] == p1);
    }
    if k < nd_ && pre + k < N {
        // k-th character from the left is digit number nd_-1-k
        let pos = (nd_ - 1 - k) * K;
        let mut d = 0u8;
        let mut j = 0;
        while j < K {
            if refm::bit(v.as_limbs(), pos + j) {
                d |= 1 << j;
            }
            j += 1;
        }
        let want = if d < 10 {
            b'0' + d
        } else if UPPER != 0 {
            b'A' + d - 10
        } else {
            b'a' + d - 10
        };
        chk!(nd, "C09.fmt.digit", s.buf[pre + k] == want);
    }
    cov!(nd, "zero", bl == 0);
    cov!(nd, "full-width", bl == B);
}
