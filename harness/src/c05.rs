//! C05 — shifts and rotations move bits exactly and report lost bits exactly.
//! Oracle: one symbolic bit position `i` per harness (covers all positions),
//! read through the limb-array reference `refm::bit`.

use crate::nd::Nd;
use crate::refm;
use ruint::Uint;

/// bit i of (a << s) mod 2^B
#[inline(always)]
fn shl_bit<const L: usize>(bits: usize, a: &[u64; L], s: usize, i: usize) -> bool {
    i < bits && i >= s && refm::bit(a, i - s)
}

/// bit i of floor(a / 2^s)
#[inline(always)]
fn shr_bit<const L: usize>(bits: usize, a: &[u64; L], s: usize, i: usize) -> bool {
    match i.checked_add(s) {
        Some(j) => j < bits && refm::bit(a, j),
        None => false,
    }
}

/// a * 2^s >= 2^B  (a non-zero bit is shifted out on the left)
#[inline(always)]
fn shl_loses<const L: usize>(bits: usize, a: &[u64; L], s: usize) -> bool {
    let n = refm::bit_len(a);
    n != 0 && s > bits - n
}

/// a not divisible by 2^s
#[inline(always)]
fn shr_loses<const L: usize>(a: &[u64; L], s: usize) -> bool {
    !refm::is_zero(a) && s > refm::trailing_zeros(a)
}

macro_rules! chk_bits {
    ($nd:expr, $label:literal, $B:expr, $r:expr, $i:expr, $want:expr) => {{
        let rl = *$r.as_limbs();
        chk!($nd, $label, refm::canonical(&rl, $B) && ($i >= $B || refm::bit(&rl, $i) == $want));
    }};
}

pub fn shl<const B: usize, const L: usize>(nd: &mut Nd) {
    let a: Uint<B, L> = nd.uint();
    let s = nd.usize();
    let i = nd.upto(B);
    let la = *a.as_limbs();
    let want = shl_bit(B, &la, s, i);
    let lose = shl_loses(B, &la, s);
    cov!(nd, "loses-bits", lose);
    cov!(nd, "whole-limb-shift-keeps-bits", !lose && s >= 64 && !refm::is_zero(&la));
    let (r, o) = a.overflowing_shl(s);
    chk_bits!(nd, "C05.overflowing_shl.value", B, r, i, want);
    chk!(nd, "C05.overflowing_shl.flag", o == lose);
    let r = a.wrapping_shl(s);
    chk_bits!(nd, "C05.wrapping_shl.value", B, r, i, want);
    match a.checked_shl(s) {
        Some(r) => {
            chk!(nd, "C05.checked_shl.some_but_loses_bits", !lose);
            chk_bits!(nd, "C05.checked_shl.value", B, r, i, want);
        }
        None => chk!(nd, "C05.checked_shl.none_but_exact", lose),
    }
    let r = a.saturating_shl(s);
    if lose {
        chk!(nd, "C05.saturating_shl.max", refm::eq(r.as_limbs(), &refm::max::<L>(B)));
    } else {
        chk_bits!(nd, "C05.saturating_shl.value", B, r, i, want);
    }
}

pub fn shr<const B: usize, const L: usize>(nd: &mut Nd) {
    let a: Uint<B, L> = nd.uint();
    let s = nd.usize();
    let i = nd.upto(B);
    let la = *a.as_limbs();
    let want = shr_bit(B, &la, s, i);
    let lose = shr_loses(&la, s);
    cov!(nd, "loses-bits", lose);
    cov!(nd, "whole-limb-shift-exact", !lose && s >= 64 && !refm::is_zero(&la));
    let (r, o) = a.overflowing_shr(s);
    chk_bits!(nd, "C05.overflowing_shr.value", B, r, i, want);
    chk!(nd, "C05.overflowing_shr.flag", o == lose);
    let r = a.wrapping_shr(s);
    chk_bits!(nd, "C05.wrapping_shr.value", B, r, i, want);
    match a.checked_shr(s) {
        Some(r) => {
            chk!(nd, "C05.checked_shr.some_but_loses_bits", !lose);
            chk_bits!(nd, "C05.checked_shr.value", B, r, i, want);
        }
        None => chk!(nd, "C05.checked_shr.none_but_exact", lose),
    }
    // arithmetic shift replicates bit B-1
    if B > 0 {
        let sign = refm::bit(&la, B - 1);
        let want = match i.checked_add(s) {
            Some(j) if j < B => refm::bit(&la, j),
            _ => sign,
        };
        let r = a.arithmetic_shr(s);
        chk_bits!(nd, "C05.arithmetic_shr.value", B, r, i, want);
    } else {
        let r = a.arithmetic_shr(s);
        chk!(nd, "C05.arithmetic_shr.zero_width", refm::is_zero(r.as_limbs()));
    }
}

/// `W` = 0: amounts 0..=65535 (structurally narrow, covers [0, BITS+64*LIMBS+1]);
/// `W` = 1: any usize amount (the `% BITS` divider makes this much slower)
pub fn rot<const B: usize, const L: usize, const W: usize>(nd: &mut Nd) {
    let a: Uint<B, L> = nd.uint();
    let s = if W == 0 { nd.u16() as usize } else { nd.usize() };
    let i = nd.upto(B);
    let la = *a.as_limbs();
    let rl = a.rotate_left(s);
    let rr = a.rotate_right(s);
    if B == 0 {
        chk!(nd, "C05.rotate.zero_width", refm::is_zero(rl.as_limbs()) && refm::is_zero(rr.as_limbs()));
        return;
    }
    if i < B {
        let sr = s % B;
        // bit i of a lands at (i + s) mod B under rotate_left, and comes from there under rotate_right
        let j = if i + sr >= B { i + sr - B } else { i + sr };
        chk!(nd, "C05.rotate_left.bit", refm::bit(rl.as_limbs(), j) == refm::bit(&la, i));
        chk!(nd, "C05.rotate_right.bit", refm::bit(rr.as_limbs(), i) == refm::bit(&la, j));
    }
    chk!(nd, "C05.rotate_left.canonical", refm::canonical(rl.as_limbs(), B));
    chk!(nd, "C05.rotate_right.canonical", refm::canonical(rr.as_limbs(), B));
}

macro_rules! int_ops {
    ($nd:expr, $B:expr, $a:expr, $la:expr, $i:expr, $t:ty, $draw:ident, $signed:expr) => {{
        let raw = $nd.$draw();
        let s: $t = raw as $t;
        if !$signed || (s as i128) >= 0 {
            let su = s as usize;
            let wl = shl_bit($B, &$la, su, $i);
            let wr = shr_bit($B, &$la, su, $i);
            let r = $a << s;
            chk_bits!($nd, "C05.op.shl.value", $B, r, $i, wl);
            let r = $a << &s;
            chk_bits!($nd, "C05.op.shl.ref", $B, r, $i, wl);
            let mut r = $a;
            r <<= s;
            chk_bits!($nd, "C05.op.shl_assign.value", $B, r, $i, wl);
            let mut r = $a;
            r <<= &s;
            chk_bits!($nd, "C05.op.shl_assign.ref", $B, r, $i, wl);
            let r = $a >> s;
            chk_bits!($nd, "C05.op.shr.value", $B, r, $i, wr);
            let r = $a >> &s;
            chk_bits!($nd, "C05.op.shr.ref", $B, r, $i, wr);
            let mut r = $a;
            r >>= s;
            chk_bits!($nd, "C05.op.shr_assign.value", $B, r, $i, wr);
            let mut r = $a;
            r >>= &s;
            chk_bits!($nd, "C05.op.shr_assign.ref", $B, r, $i, wr);
        }
    }};
}

/// << >> <<= >>= with every primitive amount type (non-negative amounts);
/// `T` selects the type so that each harness stays small
pub fn ops_int<const B: usize, const L: usize, const T: usize>(nd: &mut Nd) {
    let a: Uint<B, L> = nd.uint();
    let i = nd.upto(B);
    let la = *a.as_limbs();
    match T {
        0 => int_ops!(nd, B, a, la, i, usize, u64, false),
        1 => int_ops!(nd, B, a, la, i, u8, u8, false),
        2 => int_ops!(nd, B, a, la, i, u16, u16, false),
        3 => int_ops!(nd, B, a, la, i, u32, u32, false),
        4 => int_ops!(nd, B, a, la, i, u64, u64, false),
        5 => int_ops!(nd, B, a, la, i, isize, u64, true),
        6 => int_ops!(nd, B, a, la, i, i8, u8, true),
        7 => int_ops!(nd, B, a, la, i, i16, u16, true),
        8 => int_ops!(nd, B, a, la, i, i32, u32, true),
        _ => int_ops!(nd, B, a, la, i, i64, u64, true),
    }
}

/// << >> <<= >>= with a Uint-typed amount of any magnitude
pub fn ops_uint<const B: usize, const L: usize>(nd: &mut Nd) {
    let a: Uint<B, L> = nd.uint();
    let b: Uint<B, L> = nd.uint();
    let i = nd.upto(B);
    let la = *a.as_limbs();
    let lb = *b.as_limbs();
    // the amount as an integer: >= 2^64 iff a limb above the first is non-zero
    let mut huge = false;
    let mut k = 1;
    while k < L {
        huge |= lb[k] != 0;
        k += 1;
    }
    let s = if L > 0 { lb[0] as usize } else { 0 };
    let wl = !huge && shl_bit(B, &la, s, i);
    let wr = !huge && shr_bit(B, &la, s, i);
    cov!(nd, "amount-ge-2^64", huge);
    let r = a << b;
    chk_bits!(nd, "C05.op.shl_uint.value", B, r, i, wl);
    let r = a << &b;
    chk_bits!(nd, "C05.op.shl_uint.ref", B, r, i, wl);
    let mut r = a;
    r <<= b;
    chk_bits!(nd, "C05.op.shl_assign_uint.value", B, r, i, wl);
    let mut r = a;
    r <<= &b;
    chk_bits!(nd, "C05.op.shl_assign_uint.ref", B, r, i, wl);
    let r = a >> b;
    chk_bits!(nd, "C05.op.shr_uint.value", B, r, i, wr);
    let r = a >> &b;
    chk_bits!(nd, "C05.op.shr_uint.ref", B, r, i, wr);
    let mut r = a;
    r >>= b;
    chk_bits!(nd, "C05.op.shr_assign_uint.value", B, r, i, wr);
    let mut r = a;
    r >>= &b;
    chk_bits!(nd, "C05.op.shr_assign_uint.ref", B, r, i, wr);
}

/// rotations by a concrete amount S (whole-limb and mixed amounts as separate harness instances): the
/// symbolic-amount harness above covers the same inputs, but a concrete amount keeps any slice-level fast path
/// in the implementation concrete for the solver
pub fn rot_const<const B: usize, const L: usize, const S: usize>(nd: &mut Nd) {
    let a: Uint<B, L> = nd.uint();
    let i = nd.upto(B);
    let la = *a.as_limbs();
    let rl = a.rotate_left(S);
    let rr = a.rotate_right(S);
    if B > 0 && i < B {
        let sr = S % B;
        let j = if i + sr >= B { i + sr - B } else { i + sr };
        chk!(nd, "C05.rotate_left.bit", refm::bit(rl.as_limbs(), j) == refm::bit(&la, i));
        chk!(nd, "C05.rotate_right.bit", refm::bit(rr.as_limbs(), i) == refm::bit(&la, j));
    }
    chk!(nd, "C05.rotate.canonical", refm::canonical(rl.as_limbs(), B) && refm::canonical(rr.as_limbs(), B));
}
