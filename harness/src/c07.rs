//! C07 — integer conversions accept exactly the representable range and
//! preserve the value.

use crate::nd::Nd;
use crate::refm;
use ruint::{FromUintError, ToUintError, Uint, UintTryFrom, UintTryTo};

/// limbs of (x mod 2^B) for a 128-bit pattern x
#[inline(always)]
fn limbs_of<const L: usize>(bits: usize, x: u128) -> [u64; L] {
    let mut l = [0u64; L];
    if L > 0 {
        l[0] = x as u64;
    }
    if L > 1 {
        l[1] = (x >> 64) as u64;
    }
    refm::masked(l, bits)
}

/// x (128-bit, non-negative) < 2^B
#[inline(always)]
fn fits_u128(bits: usize, x: u128) -> bool {
    bits >= 128 || (x >> bits) == 0
}

/// shared oracle for "primitive -> Uint".  `ext` is the source value
/// sign-extended to 128 bits, `neg` its sign, `src_bits` the source width.
#[inline(always)]
fn check_to_uint<const B: usize, const L: usize>(
    nd: &mut Nd,
    neg: bool,
    src_bits: usize,
    ext: u128,
    r: Result<Uint<B, L>, ToUintError<Uint<B, L>>>,
    wrapping: Uint<B, L>,
    saturating: Uint<B, L>,
) {
    let fits = !neg && fits_u128(B, ext);
    let wrapped = limbs_of::<L>(B, ext);
    cov!(nd, "too-large", !neg && !fits);
    cov!(nd, "fits", fits);
    match r {
        Ok(x) => {
            chk!(nd, "C07.try_from.ok_but_out_of_range", fits);
            chk!(nd, "C07.try_from.value", refm::eq(x.as_limbs(), &wrapped));
            chk!(nd, "C07.wrapping_from.in_range", refm::eq(wrapping.as_limbs(), &wrapped));
            chk!(nd, "C07.saturating_from.in_range", refm::eq(saturating.as_limbs(), &wrapped));
        }
        Err(ToUintError::ValueTooLarge(b, w)) => {
            chk!(nd, "C07.try_from.too_large_but_fits_or_negative", !neg && !fits);
            chk!(nd, "C07.try_from.too_large.bits", b == B);
            chk!(nd, "C07.try_from.too_large.payload", refm::eq(w.as_limbs(), &wrapped));
            chk!(nd, "C07.wrapping_from.too_large", refm::eq(wrapping.as_limbs(), &wrapped));
            chk!(nd, "C07.saturating_from.too_large", refm::eq(saturating.as_limbs(), &refm::max::<L>(B)));
        }
        Err(ToUintError::ValueNegative(b, w)) => {
            chk!(nd, "C07.try_from.negative_but_not", neg);
            chk!(nd, "C07.try_from.negative.bits", b == B);
            chk!(nd, "C07.try_from.negative.canonical", refm::canonical(w.as_limbs(), B));
            if B <= src_bits {
                chk!(nd, "C07.try_from.negative.payload", refm::eq(w.as_limbs(), &wrapped));
                chk!(nd, "C07.wrapping_from.negative", refm::eq(wrapping.as_limbs(), &wrapped));
            }
            chk!(nd, "C07.saturating_from.negative", refm::is_zero(saturating.as_limbs()));
        }
        Err(ToUintError::NotANumber(_)) => chk!(nd, "C07.try_from.nan_for_integer", false),
    }
}

macro_rules! to_uint_fn {
    ($name:ident, $ok:ident, $bad:ident, $t:ty, $draw:ident, $bits:expr, $signed:expr) => {
        /// try_from / wrapping_from / saturating_from for one source type
        pub fn $name<const B: usize, const L: usize>(nd: &mut Nd) {
            let raw = nd.$draw();
            let v: $t = raw as $t;
            let neg = $signed && (v as i128) < 0;
            let ext = (v as i128) as u128;
            let r = Uint::<B, L>::try_from(v);
            let w = Uint::<B, L>::wrapping_from(v);
            let s = Uint::<B, L>::saturating_from(v);
            check_to_uint::<B, L>(nd, neg, $bits, ext, r, w, s);
        }
        /// `from` returns the value on every in-range input
        pub fn $ok<const B: usize, const L: usize>(nd: &mut Nd) {
            let raw = nd.$draw();
            let v: $t = raw as $t;
            let neg = $signed && (v as i128) < 0;
            let ext = (v as i128) as u128;
            nd.assume(!neg && fits_u128(B, ext));
            let x = Uint::<B, L>::from(v);
            chk!(nd, "C07.from.value", refm::eq(x.as_limbs(), &limbs_of::<L>(B, ext)));
        }
        /// `from` panics on every out-of-range input (never returns)
        pub fn $bad<const B: usize, const L: usize>(nd: &mut Nd) {
            let raw = nd.$draw();
            let v: $t = raw as $t;
            let neg = $signed && (v as i128) < 0;
            let ext = (v as i128) as u128;
            nd.assume(neg || !fits_u128(B, ext));
            cov!(nd, "before-call", true);
            let _ = Uint::<B, L>::from(v);
            cov!(nd, "returned", true);
        }
    };
}

to_uint_fn!(to_uint_u8, from_ok_u8, from_bad_u8, u8, u8, 8, false);
to_uint_fn!(to_uint_u16, from_ok_u16, from_bad_u16, u16, u16, 16, false);
to_uint_fn!(to_uint_u32, from_ok_u32, from_bad_u32, u32, u32, 32, false);
to_uint_fn!(to_uint_u64, from_ok_u64, from_bad_u64, u64, u64, 64, false);
to_uint_fn!(to_uint_u128, from_ok_u128, from_bad_u128, u128, u128, 128, false);
to_uint_fn!(to_uint_usize, from_ok_usize, from_bad_usize, usize, u64, 64, false);
to_uint_fn!(to_uint_i8, from_ok_i8, from_bad_i8, i8, u8, 8, true);
to_uint_fn!(to_uint_i16, from_ok_i16, from_bad_i16, i16, u16, 16, true);
to_uint_fn!(to_uint_i32, from_ok_i32, from_bad_i32, i32, u32, 32, true);
to_uint_fn!(to_uint_i64, from_ok_i64, from_bad_i64, i64, u64, 64, true);
to_uint_fn!(to_uint_i128, from_ok_i128, from_bad_i128, i128, u128, 128, true);
to_uint_fn!(to_uint_isize, from_ok_isize, from_bad_isize, isize, u64, 64, true);

pub fn to_uint_bool<const B: usize, const L: usize>(nd: &mut Nd) {
    let v = nd.bool();
    let r = Uint::<B, L>::try_from(v);
    let w = Uint::<B, L>::wrapping_from(v);
    let s = Uint::<B, L>::saturating_from(v);
    check_to_uint::<B, L>(nd, false, 1, v as u128, r, w, s);
}

// ---------------------------------------------------------------- limb slices

/// the five *_from_limbs_slice forms (the panicking one on its non-panicking half)
/// (`LEN` is concrete per harness: Kani 0.68/CBMC 6.11 mis-model `copy_from_slice`
/// on `[u64]` with a symbolic length - spurious counterexamples, measured)
pub fn limbs_slice<const B: usize, const L: usize, const NX: usize, const LEN: usize>(nd: &mut Nd) {
    let src: [u64; NX] = nd.limbs();
    let len = LEN;
    let s = &src[..len];
    // oracle
    let mut want = [0u64; L];
    let mut over = false;
    let mut i = 0;
    while i < NX {
        if i < len {
            if i < L {
                want[i] = src[i];
            } else {
                over |= src[i] != 0;
            }
        }
        i += 1;
    }
    over |= !refm::canonical(&want, B);
    let want = refm::masked(want, B);
    cov!(nd, "overflow", over);
    cov!(nd, "short-slice", len < L);
    let (r, o) = Uint::<B, L>::overflowing_from_limbs_slice(s);
    chk!(nd, "C07.overflowing_from_limbs_slice.value", refm::eq(r.as_limbs(), &want));
    chk!(nd, "C07.overflowing_from_limbs_slice.flag", o == over);
    let r = Uint::<B, L>::wrapping_from_limbs_slice(s);
    chk!(nd, "C07.wrapping_from_limbs_slice.value", refm::eq(r.as_limbs(), &want));
    match Uint::<B, L>::checked_from_limbs_slice(s) {
        Some(r) => chk!(nd, "C07.checked_from_limbs_slice.some", !over && refm::eq(r.as_limbs(), &want)),
        None => chk!(nd, "C07.checked_from_limbs_slice.none", over),
    }
    let r = Uint::<B, L>::saturating_from_limbs_slice(s);
    let max = refm::max::<L>(B);
    chk!(nd, "C07.saturating_from_limbs_slice.value", refm::eq(r.as_limbs(), if over { &max } else { &want }));
    if !over {
        let r = Uint::<B, L>::from_limbs_slice(s);
        chk!(nd, "C07.from_limbs_slice.value", refm::eq(r.as_limbs(), &want));
    }
}

/// from_limbs_slice panics on an out-of-range slice (never returns)
pub fn limbs_slice_panics<const B: usize, const L: usize, const NX: usize, const LEN: usize>(nd: &mut Nd) {
    let src: [u64; NX] = nd.limbs();
    let len = LEN;
    let mut over = false;
    let mut i = 0;
    while i < NX {
        if i < len {
            if i >= L {
                over |= src[i] != 0;
            } else if i + 1 == L {
                over |= src[i] & !refm::mask(B) != 0;
            }
        }
        i += 1;
    }
    nd.assume(over);
    cov!(nd, "before-call", true);
    let _ = Uint::<B, L>::from_limbs_slice(&src[..len]);
    cov!(nd, "returned", true);
}

// ------------------------------------------------------- Uint -> primitive

macro_rules! from_uint_fn {
    ($name:ident, $bad:ident, $t:ty, $cap:expr) => {
        /// TryFrom<Uint>, TryFrom<&Uint>, wrapping_to, saturating_to, to (in-range half)
        pub fn $name<const B: usize, const L: usize>(nd: &mut Nd) {
            let v: Uint<B, L> = nd.uint();
            let lv = *v.as_limbs();
            let fits = refm::bit_len(&lv) <= $cap;
            let lo: u128 = (if L > 0 { lv[0] as u128 } else { 0 }) | (if L > 1 { (lv[1] as u128) << 64 } else { 0 });
            let wrapped = lo as $t;
            cov!(nd, "overflow", !fits);
            let r1 = <$t>::try_from(v);
            let r2 = <$t>::try_from(&v);
            chk!(nd, "C07.try_into.value_vs_ref", r1 == r2);
            match r2 {
                Ok(x) => chk!(nd, "C07.try_into.ok", fits && x == wrapped),
                Err(FromUintError::Overflow(b, w, m)) => {
                    chk!(nd, "C07.try_into.err_but_fits", !fits);
                    chk!(nd, "C07.try_into.err.bits", b == B);
                    chk!(nd, "C07.try_into.err.wrapped", w == wrapped);
                    chk!(nd, "C07.try_into.err.max", m == <$t>::MAX);
                }
            }
            chk!(nd, "C07.wrapping_to", v.wrapping_to::<$t>() == wrapped);
            chk!(nd, "C07.saturating_to", v.saturating_to::<$t>() == if fits { wrapped } else { <$t>::MAX });
            if fits {
                chk!(nd, "C07.to", v.to::<$t>() == wrapped);
            }
        }
        /// `to` panics when the value does not fit (never returns)
        pub fn $bad<const B: usize, const L: usize>(nd: &mut Nd) {
            let v: Uint<B, L> = nd.uint();
            nd.assume(refm::bit_len(v.as_limbs()) > $cap);
            cov!(nd, "before-call", true);
            let _ = v.to::<$t>();
            cov!(nd, "returned", true);
        }
    };
}

from_uint_fn!(from_uint_u8, to_bad_u8, u8, 8);
from_uint_fn!(from_uint_u16, to_bad_u16, u16, 16);
from_uint_fn!(from_uint_u32, to_bad_u32, u32, 32);
from_uint_fn!(from_uint_u64, to_bad_u64, u64, 64);
from_uint_fn!(from_uint_u128, to_bad_u128, u128, 128);
from_uint_fn!(from_uint_usize, to_bad_usize, usize, 64);
from_uint_fn!(from_uint_i8, to_bad_i8, i8, 7);
from_uint_fn!(from_uint_i16, to_bad_i16, i16, 15);
from_uint_fn!(from_uint_i32, to_bad_i32, i32, 31);
from_uint_fn!(from_uint_i64, to_bad_i64, i64, 63);
from_uint_fn!(from_uint_i128, to_bad_i128, i128, 127);
from_uint_fn!(from_uint_isize, to_bad_isize, isize, 63);

pub fn from_uint_bool<const B: usize, const L: usize>(nd: &mut Nd) {
    let v: Uint<B, L> = nd.uint();
    let lv = *v.as_limbs();
    let fits = refm::bit_len(&lv) <= 1;
    let wrapped = refm::bit(&lv, 0);
    let r1 = bool::try_from(v);
    let r2 = bool::try_from(&v);
    chk!(nd, "C07.try_into_bool.value_vs_ref", r1 == r2);
    match r2 {
        Ok(x) => chk!(nd, "C07.try_into_bool.ok", fits && x == wrapped),
        Err(FromUintError::Overflow(b, w, m)) => {
            chk!(nd, "C07.try_into_bool.err", !fits && b == B && w == wrapped && m);
        }
    }
    chk!(nd, "C07.wrapping_to_bool", v.wrapping_to::<bool>() == wrapped);
    chk!(nd, "C07.saturating_to_bool", v.saturating_to::<bool>() == if fits { wrapped } else { true });
    if fits {
        chk!(nd, "C07.to_bool", v.to::<bool>() == wrapped);
    }
}

// ------------------------------------------------------------ Uint -> Uint

/// reduce an LS-limb number mod 2^BD into LD limbs + "does not fit" flag
#[inline(always)]
fn resize<const LS: usize, const LD: usize>(bd: usize, s: &[u64; LS]) -> ([u64; LD], bool) {
    let mut d = [0u64; LD];
    let mut over = false;
    let mut i = 0;
    while i < LS {
        if i < LD {
            d[i] = s[i];
        } else {
            over |= s[i] != 0;
        }
        i += 1;
    }
    over |= !refm::canonical(&d, bd);
    (refm::masked(d, bd), over)
}

pub fn uint_to_uint<const BS: usize, const LS: usize, const BD: usize, const LD: usize>(nd: &mut Nd) {
    let v: Uint<BS, LS> = nd.uint();
    let (want, over) = resize::<LS, LD>(BD, v.as_limbs());
    let max = refm::max::<LD>(BD);
    cov!(nd, "overflow", over);
    match <Uint<BD, LD> as UintTryFrom<Uint<BS, LS>>>::uint_try_from(v) {
        Ok(x) => chk!(nd, "C07.uint_try_from.ok", !over && refm::eq(x.as_limbs(), &want)),
        Err(ToUintError::ValueTooLarge(b, w)) => {
            chk!(nd, "C07.uint_try_from.too_large", over && b == BD && refm::eq(w.as_limbs(), &want));
        }
        Err(_) => chk!(nd, "C07.uint_try_from.wrong_error", false),
    }
    let w = Uint::<BD, LD>::wrapping_from(v);
    chk!(nd, "C07.uint.wrapping_from", refm::eq(w.as_limbs(), &want));
    let s = Uint::<BD, LD>::saturating_from(v);
    chk!(nd, "C07.uint.saturating_from", refm::eq(s.as_limbs(), if over { &max } else { &want }));
    match <Uint<BS, LS> as UintTryTo<Uint<BD, LD>>>::uint_try_to(&v) {
        Ok(x) => chk!(nd, "C07.uint_try_to.ok", !over && refm::eq(x.as_limbs(), &want)),
        Err(FromUintError::Overflow(b, w, m)) => {
            chk!(nd, "C07.uint_try_to.overflow",
                over && b == BD && refm::eq(w.as_limbs(), &want) && refm::eq(m.as_limbs(), &max));
        }
    }
    let w: Uint<BD, LD> = v.wrapping_to();
    chk!(nd, "C07.uint.wrapping_to", refm::eq(w.as_limbs(), &want));
    let s: Uint<BD, LD> = v.saturating_to();
    chk!(nd, "C07.uint.saturating_to", refm::eq(s.as_limbs(), if over { &max } else { &want }));
    if !over {
        let x = Uint::<BD, LD>::from(v);
        chk!(nd, "C07.uint.from", refm::eq(x.as_limbs(), &want));
        let y: Uint<BD, LD> = v.to();
        chk!(nd, "C07.uint.to", refm::eq(y.as_limbs(), &want));
    }
}

/// Uint::from(Uint) / to::<Uint>() panic when the value does not fit (never return)
pub fn uint_to_uint_panics<const BS: usize, const LS: usize, const BD: usize, const LD: usize>(nd: &mut Nd) {
    let v: Uint<BS, LS> = nd.uint();
    let which = nd.bool();
    let (_, over) = resize::<LS, LD>(BD, v.as_limbs());
    nd.assume(over);
    cov!(nd, "before-call", true);
    if which {
        let _ = Uint::<BD, LD>::from(v);
    } else {
        let _: Uint<BD, LD> = v.to();
    }
    cov!(nd, "returned", true);
}

// ------------------------------------------------- all source/target types

/// every primitive source type in one harness (each conversion is tiny)
pub fn to_uint_all<const B: usize, const L: usize>(nd: &mut Nd) {
    to_uint_bool::<B, L>(nd);
    to_uint_u8::<B, L>(nd);
    to_uint_u16::<B, L>(nd);
    to_uint_u32::<B, L>(nd);
    to_uint_u64::<B, L>(nd);
    to_uint_u128::<B, L>(nd);
    to_uint_usize::<B, L>(nd);
    to_uint_i8::<B, L>(nd);
    to_uint_i16::<B, L>(nd);
    to_uint_i32::<B, L>(nd);
    to_uint_i64::<B, L>(nd);
    to_uint_i128::<B, L>(nd);
    to_uint_isize::<B, L>(nd);
}

macro_rules! select12 {
    ($nd:expr, $B:ident, $L:ident, $($k:literal => $f:ident),*) => {{
        let which = $nd.u8();
        $nd.assume(which < 12);
        match which {
            $($k => $f::<$B, $L>($nd),)*
            _ => {}
        }
    }};
}

/// `from` on in-range input, source type symbolic
pub fn from_ok_all<const B: usize, const L: usize>(nd: &mut Nd) {
    select12!(nd, B, L, 0 => from_ok_u8, 1 => from_ok_u16, 2 => from_ok_u32, 3 => from_ok_u64, 4 => from_ok_u128,
        5 => from_ok_usize, 6 => from_ok_i8, 7 => from_ok_i16, 8 => from_ok_i32, 9 => from_ok_i64,
        10 => from_ok_i128, 11 => from_ok_isize);
}

/// `from` on out-of-range input never returns, source type symbolic
pub fn from_bad_all<const B: usize, const L: usize>(nd: &mut Nd) {
    select12!(nd, B, L, 0 => from_bad_u8, 1 => from_bad_u16, 2 => from_bad_u32, 3 => from_bad_u64, 4 => from_bad_u128,
        5 => from_bad_usize, 6 => from_bad_i8, 7 => from_bad_i16, 8 => from_bad_i32, 9 => from_bad_i64,
        10 => from_bad_i128, 11 => from_bad_isize);
}

/// every primitive target type in one harness
pub fn from_uint_all<const B: usize, const L: usize>(nd: &mut Nd) {
    let which = nd.u8();
    nd.assume(which < 13);
    match which {
        0 => from_uint_bool::<B, L>(nd),
        1 => from_uint_u8::<B, L>(nd),
        2 => from_uint_u16::<B, L>(nd),
        3 => from_uint_u32::<B, L>(nd),
        4 => from_uint_u64::<B, L>(nd),
        5 => from_uint_u128::<B, L>(nd),
        6 => from_uint_usize::<B, L>(nd),
        7 => from_uint_i8::<B, L>(nd),
        8 => from_uint_i16::<B, L>(nd),
        9 => from_uint_i32::<B, L>(nd),
        10 => from_uint_i64::<B, L>(nd),
        11 => from_uint_i128::<B, L>(nd),
        _ => from_uint_isize::<B, L>(nd),
    }
}

/// `to::<T>()` on a value that does not fit never returns, target type symbolic
pub fn to_bad_all<const B: usize, const L: usize>(nd: &mut Nd) {
    select12!(nd, B, L, 0 => to_bad_u8, 1 => to_bad_u16, 2 => to_bad_u32, 3 => to_bad_u64, 4 => to_bad_u128,
        5 => to_bad_usize, 6 => to_bad_i8, 7 => to_bad_i16, 8 => to_bad_i32, 9 => to_bad_i64,
        10 => to_bad_i128, 11 => to_bad_isize);
}
