//! Nondeterminism source shared by the solver run and the native replay.
//!
//! Under `cfg(kani)` every draw is `kani::any()`, `assume` is `kani::assume`
//! and `chk!` is an `assert!` whose message is the obligation label.  In the
//! ordinary build the very same harness body runs on a *tape*: the list of
//! byte strings that Kani's concrete playback printed for the counterexample,
//! consumed in draw order.  Harness bodies therefore use only the primitive
//! draws below, and draw all inputs before calling the code under test.

use ruint::Uint;

#[cfg(kani)]
pub struct Nd;

#[cfg(kani)]
impl Nd {
    #[inline(always)]
    pub fn new() -> Self {
        Nd
    }
    #[inline(always)]
    pub fn u8(&mut self) -> u8 {
        kani::any()
    }
    #[inline(always)]
    pub fn u16(&mut self) -> u16 {
        kani::any()
    }
    #[inline(always)]
    pub fn u32(&mut self) -> u32 {
        kani::any()
    }
    #[inline(always)]
    pub fn u64(&mut self) -> u64 {
        kani::any()
    }
    #[inline(always)]
    pub fn u128(&mut self) -> u128 {
        kani::any()
    }
    #[inline(always)]
    pub fn usize(&mut self) -> usize {
        kani::any()
    }
    #[inline(always)]
    pub fn bool(&mut self) -> bool {
        kani::any()
    }
    #[inline(always)]
    pub fn assume(&mut self, c: bool) {
        kani::assume(c)
    }
}

/// Outcome of a native run of a harness body.
#[cfg(not(kani))]
#[derive(Default, Debug)]
pub struct Nd {
    pub tape: Vec<Vec<u8>>,
    pub pos: usize,
    /// draws that ran past the end of the tape (returned zero)
    pub underrun: usize,
    /// draws whose width did not match the tape entry
    pub mismatch: usize,
    pub failures: Vec<&'static str>,
    pub checks: usize,
    pub covers: Vec<&'static str>,
}

#[cfg(not(kani))]
pub struct Vacuous;

#[cfg(not(kani))]
impl Nd {
    pub fn new() -> Self {
        Self::default()
    }
    pub fn from_tape(tape: Vec<Vec<u8>>) -> Self {
        Self {
            tape,
            ..Self::default()
        }
    }
    fn take(&mut self, n: usize) -> [u8; 16] {
        let mut out = [0u8; 16];
        if self.pos < self.tape.len() {
            let e = &self.tape[self.pos];
            if e.len() != n {
                self.mismatch += 1;
            }
            let m = e.len().min(n);
            out[..m].copy_from_slice(&e[..m]);
            self.pos += 1;
        } else {
            self.underrun += 1;
        }
        out
    }
    pub fn u8(&mut self) -> u8 {
        self.take(1)[0]
    }
    pub fn u16(&mut self) -> u16 {
        let b = self.take(2);
        u16::from_le_bytes([b[0], b[1]])
    }
    pub fn u32(&mut self) -> u32 {
        let b = self.take(4);
        u32::from_le_bytes([b[0], b[1], b[2], b[3]])
    }
    pub fn u64(&mut self) -> u64 {
        let b = self.take(8);
        u64::from_le_bytes(b[..8].try_into().unwrap())
    }
    pub fn u128(&mut self) -> u128 {
        let b = self.take(16);
        u128::from_le_bytes(b)
    }
    pub fn usize(&mut self) -> usize {
        self.u64() as usize
    }
    pub fn bool(&mut self) -> bool {
        self.take(1)[0] & 1 != 0
    }
    pub fn assume(&mut self, c: bool) {
        if !c {
            std::panic::panic_any(Vacuous);
        }
    }
    pub fn check(&mut self, label: &'static str, c: bool) {
        self.checks += 1;
        if !c && !self.failures.contains(&label) {
            self.failures.push(label);
        }
    }
    pub fn cover(&mut self, label: &'static str, c: bool) {
        if c && !self.covers.contains(&label) {
            self.covers.push(label);
        }
    }
}

impl Nd {
    /// FULL(B, L): arbitrary limbs, top limb masked structurally.
    #[inline(always)]
    pub fn limbs<const L: usize>(&mut self) -> [u64; L] {
        let mut l = [0u64; L];
        let mut i = 0;
        while i < L {
            l[i] = self.u64();
            i += 1;
        }
        l
    }
    #[inline(always)]
    pub fn uint<const B: usize, const L: usize>(&mut self) -> Uint<B, L> {
        let mut l = self.limbs::<L>();
        if L > 0 {
            l[L - 1] &= ruint::mask(B);
        }
        Uint::from_limbs(l)
    }
    #[inline(always)]
    pub fn bytes<const N: usize>(&mut self) -> [u8; N] {
        let mut b = [0u8; N];
        let mut i = 0;
        while i < N {
            b[i] = self.u8();
            i += 1;
        }
        b
    }
    /// symbolic length / index in `0..=max`
    #[inline(always)]
    pub fn upto(&mut self, max: usize) -> usize {
        let n = self.usize();
        self.assume(n <= max);
        n
    }
    /// symbolic index in `0..n` (n > 0)
    #[inline(always)]
    pub fn below(&mut self, n: usize) -> usize {
        let i = self.usize();
        self.assume(i < n);
        i
    }
}

/// Labelled obligation.
#[macro_export]
macro_rules! chk {
    ($nd:expr, $label:literal, $c:expr) => {{
        let c__: bool = $c;
        #[cfg(kani)]
        {
            let _ = &$nd;
            assert!(c__, $label);
        }
        #[cfg(not(kani))]
        {
            $nd.check($label, c__);
        }
    }};
}

/// Reachability / rare-path witness.
#[macro_export]
macro_rules! cov {
    ($nd:expr, $label:literal, $c:expr) => {{
        let c__: bool = $c;
        #[cfg(kani)]
        {
            let _ = &$nd;
            kani::cover!(c__, $label);
        }
        #[cfg(not(kani))]
        {
            $nd.cover($label, c__);
        }
    }};
}
