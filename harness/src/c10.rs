//! C10 — modular arithmetic returns the canonical residue for every modulus.

use crate::nd::Nd;
use crate::refm;
use ruint::Uint;

/// add_mod's carry logic at full range: `reduce_mod` is abstracted to "any
/// residue below m" (stub), so the harness decides exactly the add /
/// compare / conditional-subtract part: result = (ra + rb) mod m
pub fn add_mod_glue<const B: usize, const L: usize>(nd: &mut Nd) {
    let a: Uint<B, L> = nd.uint();
    let b: Uint<B, L> = nd.uint();
    let m: Uint<B, L> = nd.uint();
    let r = a.add_mod(b, m);
    #[cfg(kani)]
    {
        let (ra, rb, n) = unsafe {
            let mut x = [0u64; L];
            let mut y = [0u64; L];
            let mut i = 0;
            while i < L {
                x[i] = crate::stubs::RESIDUE_LOG[0][i];
                y[i] = crate::stubs::RESIDUE_LOG[1][i];
                i += 1;
            }
            (x, y, crate::stubs::RESIDUE_N)
        };
        chk!(nd, "C10.add_mod.reduces_both_operands", n == 2);
        let lm = *m.as_limbs();
        if refm::is_zero(&lm) {
            chk!(nd, "C10.add_mod.zero_modulus", refm::is_zero(r.as_limbs()));
        } else {
            // (ra + rb) mod m with ra, rb < m: one conditional subtraction on the (L+carry)-bit sum
            let (s, c) = refm::add(&ra, &rb, false);
            let ge = c || !refm::lt(&s, &lm);
            let want = if ge { refm::sub(&s, &lm, false).0 } else { s };
            cov!(nd, "sum-carries-out", c);
            chk!(nd, "C10.add_mod.value", refm::eq(r.as_limbs(), &want));
            chk!(nd, "C10.add_mod.in_range", refm::lt(r.as_limbs(), &lm));
        }
    }
    #[cfg(not(kani))]
    {
        let _ = (a, b, m, r);
    }
}

/// reduce_mod's plumbing with `div_rem` stubbed (tagged mix): 0 for m = 0, a for a < m, a % m otherwise
pub fn reduce_mod_glue<const B: usize, const L: usize>(nd: &mut Nd) {
    let a: Uint<B, L> = nd.uint();
    let m: Uint<B, L> = nd.uint();
    let r = a.reduce_mod(m);
    let (la, lm) = (*a.as_limbs(), *m.as_limbs());
    if refm::is_zero(&lm) {
        chk!(nd, "C10.reduce_mod.zero_modulus", refm::is_zero(r.as_limbs()));
    } else if refm::lt(&la, &lm) {
        chk!(nd, "C10.reduce_mod.already_reduced", refm::eq(r.as_limbs(), &la));
    } else {
        chk!(nd, "C10.reduce_mod.forwards_to_rem", r == a.div_rem(m).1);
    }
}

/// end-to-end at a narrow width, real code: W = 0 reduce_mod, 1 add_mod, 2 mul_mod, 3 pow_mod (exponent < 8)
pub fn narrow<const B: usize, const W: usize>(nd: &mut Nd) {
    let mask: u64 = (1u64 << B) - 1;
    let a = (nd.u8() as u64) & mask;
    let b = (nd.u8() as u64) & mask;
    let m = (nd.u8() as u64) & mask;
    let (ua, ub, um) = (Uint::<B, 1>::from_limbs([a]), Uint::<B, 1>::from_limbs([b]), Uint::<B, 1>::from_limbs([m]));
    cov!(nd, "zero-modulus", m == 0);
    cov!(nd, "unreduced-operand", m != 0 && a >= m);
    match W {
        0 => {
            let want = if m == 0 { 0 } else { a % m };
            chk!(nd, "C10.narrow.reduce_mod", ua.reduce_mod(um).as_limbs()[0] == want);
        }
        1 => {
            let want = if m == 0 { 0 } else { (a + b) % m };
            chk!(nd, "C10.narrow.add_mod", ua.add_mod(ub, um).as_limbs()[0] == want);
        }
        2 => {
            let want = if m == 0 { 0 } else { (a * b) % m };
            chk!(nd, "C10.narrow.mul_mod", ua.mul_mod(ub, um).as_limbs()[0] == want);
        }
        _ => {
            let e = b & 7;
            let ue = Uint::<B, 1>::from_limbs([e & mask]);
            let e = e & mask;
            let mut want = if m == 0 { 0 } else { 1 % m };
            let mut i = 0;
            while i < 7 {
                if i < e && m != 0 {
                    want = (want * a) % m;
                }
                i += 1;
            }
            chk!(nd, "C10.narrow.pow_mod", ua.pow_mod(ue, um).as_limbs()[0] == want);
        }
    }
}

/// pow_mod on every (a, e, m) of a narrow width, compositional: mul_mod replaced by its specification.
/// Oracle: left-to-right binary exponentiation in u16 (the implementation works right-to-left).
pub fn pow_mod_spec<const B: usize>(nd: &mut Nd) {
    let mask: u64 = (1u64 << B) - 1;
    let a = (nd.u8() as u64) & mask;
    let e = (nd.u8() as u64) & mask;
    let m = (nd.u8() as u64) & mask;
    let (ua, ue, um) = (Uint::<B, 1>::from_limbs([a]), Uint::<B, 1>::from_limbs([e]), Uint::<B, 1>::from_limbs([m]));
    let (a16, m16) = (a as u16, m as u16);
    let mut want: u16 = if m == 0 { 0 } else { 1 % m16 };
    let mut i = B;
    while i > 0 {
        i -= 1;
        if m != 0 {
            want = (want * want) % m16;
            if (e >> i) & 1 == 1 {
                want = (want * (a16 % m16)) % m16;
            }
        }
    }
    cov!(nd, "zero-modulus", m == 0);
    cov!(nd, "unreduced-operand", m != 0 && a >= m);
    cov!(nd, "nilpotent-base", m > 1 && a % m != 0 && e > 0 && want == 0);
    chk!(nd, "C10.pow_mod", ua.pow_mod(ue, um).as_limbs()[0] == want as u64);
}
