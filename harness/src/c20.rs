//! C20 — operator, wrapper and trait facades agree with the inherent methods.
//! Cheap operations: facade and inherent are both executed (identical
//! circuits).  Multiplication / division based facades: the inherent
//! multipliers / `div_rem` are replaced by tagged mixing stubs, so equality
//! can only hold through actual forwarding with the right argument order.

use crate::nd::Nd;
use crate::refm;
use ruint::{Bits, Uint};

pub fn subtle<const B: usize, const L: usize>(nd: &mut Nd) {
    use ::subtle::{Choice, ConditionallyNegatable, ConditionallySelectable, ConstantTimeEq, ConstantTimeGreater, ConstantTimeLess};
    let a: Uint<B, L> = nd.uint();
    let b: Uint<B, L> = nd.uint();
    let c = nd.bool();
    let i = nd.usize();
    let ch = Choice::from(c as u8);
    chk!(nd, "C20.subtle.ct_eq", bool::from(a.ct_eq(&b)) == (a == b));
    chk!(nd, "C20.subtle.ct_gt", bool::from(a.ct_gt(&b)) == (a > b));
    chk!(nd, "C20.subtle.ct_lt", bool::from(a.ct_lt(&b)) == (a < b));
    let s = Uint::<B, L>::conditional_select(&a, &b, ch);
    chk!(nd, "C20.subtle.conditional_select", s == if c { b } else { a });
    let mut x = a;
    x.conditional_assign(&b, ch);
    chk!(nd, "C20.subtle.conditional_assign", x == if c { b } else { a });
    let (mut x, mut y) = (a, b);
    Uint::<B, L>::conditional_swap(&mut x, &mut y, ch);
    chk!(nd, "C20.subtle.conditional_swap", (x, y) == if c { (b, a) } else { (a, b) });
    let mut x = a;
    x.conditional_negate(ch);
    chk!(nd, "C20.subtle.conditional_negate", x == if c { a.wrapping_neg() } else { a });
    if i < B {
        chk!(nd, "C20.subtle.bit_ct", bool::from(a.bit_ct(i)) == a.bit(i));
    }
}

/// bit_ct panics for an index >= BITS (never returns)
pub fn bit_ct_panics<const B: usize, const L: usize>(nd: &mut Nd) {
    let a: Uint<B, L> = nd.uint();
    let i = nd.usize();
    nd.assume(i >= B);
    cov!(nd, "before-call", true);
    let _ = a.bit_ct(i);
    cov!(nd, "returned", true);
}

/// the Bits wrapper's forwarded methods and operators
pub fn bits_wrapper<const B: usize, const L: usize, const NB: usize>(nd: &mut Nd) {
    let a: Uint<B, L> = nd.uint();
    let b: Uint<B, L> = nd.uint();
    let s = nd.usize();
    let (x, y) = (Bits::from(a), Bits::from(b));
    chk!(nd, "C20.bits.roundtrip", x.into_inner() == a && *x.as_uint() == a);
    chk!(nd, "C20.bits.reverse_bits", x.reverse_bits().into_inner() == a.reverse_bits());
    chk!(nd, "C20.bits.leading_zeros", x.leading_zeros() == Uint::<B, L>::leading_zeros(&a));
    chk!(nd, "C20.bits.leading_ones", x.leading_ones() == Uint::<B, L>::leading_ones(&a));
    chk!(nd, "C20.bits.trailing_zeros", x.trailing_zeros() == Uint::<B, L>::trailing_zeros(&a));
    chk!(nd, "C20.bits.trailing_ones", x.trailing_ones() == Uint::<B, L>::trailing_ones(&a));
    chk!(nd, "C20.bits.checked_shl", x.checked_shl(s).map(Bits::into_inner) == a.checked_shl(s));
    chk!(nd, "C20.bits.checked_shr", x.checked_shr(s).map(Bits::into_inner) == a.checked_shr(s));
    let (v, f) = x.overflowing_shl(s);
    chk!(nd, "C20.bits.overflowing_shl", (v.into_inner(), f) == a.overflowing_shl(s));
    let (v, f) = x.overflowing_shr(s);
    chk!(nd, "C20.bits.overflowing_shr", (v.into_inner(), f) == a.overflowing_shr(s));
    chk!(nd, "C20.bits.wrapping_shl", x.wrapping_shl(s).into_inner() == a.wrapping_shl(s));
    chk!(nd, "C20.bits.wrapping_shr", x.wrapping_shr(s).into_inner() == a.wrapping_shr(s));
    chk!(nd, "C20.bits.to_le_bytes", x.to_le_bytes::<NB>() == a.to_le_bytes::<NB>());
    chk!(nd, "C20.bits.to_be_bytes", x.to_be_bytes::<NB>() == a.to_be_bytes::<NB>());
    chk!(nd, "C20.bits.from_limbs", Bits::<B, L>::from_limbs(*a.as_limbs()).into_inner() == a && x.as_limbs() == a.as_limbs());
    chk!(nd, "C20.bits.from_le_bytes", Bits::<B, L>::from_le_bytes::<NB>(a.to_le_bytes::<NB>()).into_inner() == a);
    chk!(nd, "C20.bits.from_be_bytes", Bits::<B, L>::from_be_bytes::<NB>(a.to_be_bytes::<NB>()).into_inner() == a);
    chk!(nd, "C20.bits.index", x[s] == a.bit(s));
    chk!(nd, "C20.bits.not", (!x).into_inner() == !a && (!&x).into_inner() == !a);
    chk!(nd, "C20.bits.and", (x & y).into_inner() == a & b && (x & &y).into_inner() == a & b
        && (&x & y).into_inner() == a & b && (&x & &y).into_inner() == a & b);
    chk!(nd, "C20.bits.or", (x | y).into_inner() == a | b && (x | &y).into_inner() == a | b
        && (&x | y).into_inner() == a | b && (&x | &y).into_inner() == a | b);
    chk!(nd, "C20.bits.xor", (x ^ y).into_inner() == a ^ b && (x ^ &y).into_inner() == a ^ b
        && (&x ^ y).into_inner() == a ^ b && (&x ^ &y).into_inner() == a ^ b);
    let mut t = x;
    t &= y;
    let mut u = x;
    u &= &y;
    chk!(nd, "C20.bits.and_assign", t.into_inner() == a & b && u.into_inner() == a & b);
    let mut t = x;
    t |= y;
    let mut u = x;
    u |= &y;
    chk!(nd, "C20.bits.or_assign", t.into_inner() == a | b && u.into_inner() == a | b);
    let mut t = x;
    t ^= y;
    let mut u = x;
    u ^= &y;
    chk!(nd, "C20.bits.xor_assign", t.into_inner() == a ^ b && u.into_inner() == a ^ b);
}

/// rotate through the wrapper (amounts 0..=65535, see C05)
pub fn bits_rotate<const B: usize, const L: usize>(nd: &mut Nd) {
    let a: Uint<B, L> = nd.uint();
    let s = nd.u16() as usize;
    let x = Bits::from(a);
    chk!(nd, "C20.bits.rotate_left", x.rotate_left(s).into_inner() == a.rotate_left(s));
    chk!(nd, "C20.bits.rotate_right", x.rotate_right(s).into_inner() == a.rotate_right(s));
}

/// num-traits: everything that needs neither multiplication nor division
pub fn nt_cheap<const B: usize, const L: usize, const W: usize>(nd: &mut Nd) {
    use num_traits::{
        Bounded, CheckedAdd, CheckedNeg, CheckedShl, CheckedShr, CheckedSub, FromPrimitive, NumCast, One, PrimInt, Saturating,
        SaturatingAdd, SaturatingSub, ToPrimitive, WrappingAdd, WrappingNeg, WrappingShl, WrappingShr, WrappingSub, Zero,
    };
    use num_traits::ops::overflowing::{OverflowingAdd, OverflowingSub};
    let a: Uint<B, L> = nd.uint();
    let b: Uint<B, L> = nd.uint();
    let s = nd.u32();
    let w = nd.u128();
    type U<const B: usize, const L: usize> = Uint<B, L>;
    if W == 0 {
    chk!(nd, "C20.nt.zero_one_bounds", <U<B, L> as Zero>::zero() == U::<B, L>::ZERO && <U<B, L> as One>::one() == U::<B, L>::ONE
        && <U<B, L> as Bounded>::min_value() == U::<B, L>::MIN && <U<B, L> as Bounded>::max_value() == U::<B, L>::MAX
        && Zero::is_zero(&a) == a.is_zero());
    chk!(nd, "C20.nt.checked_add", CheckedAdd::checked_add(&a, &b) == a.checked_add(b));
    chk!(nd, "C20.nt.checked_sub", CheckedSub::checked_sub(&a, &b) == a.checked_sub(b));
    chk!(nd, "C20.nt.checked_neg", CheckedNeg::checked_neg(&a) == a.checked_neg());
    chk!(nd, "C20.nt.checked_shl", CheckedShl::checked_shl(&a, s) == a.checked_shl(s as usize));
    chk!(nd, "C20.nt.checked_shr", CheckedShr::checked_shr(&a, s) == a.checked_shr(s as usize));
    chk!(nd, "C20.nt.saturating", Saturating::saturating_add(a, b) == a.saturating_add(b)
        && Saturating::saturating_sub(a, b) == a.saturating_sub(b));
    chk!(nd, "C20.nt.saturating_add", SaturatingAdd::saturating_add(&a, &b) == a.saturating_add(b));
    chk!(nd, "C20.nt.saturating_sub", SaturatingSub::saturating_sub(&a, &b) == a.saturating_sub(b));
    }
    if W == 1 {
    chk!(nd, "C20.nt.wrapping_add", WrappingAdd::wrapping_add(&a, &b) == a.wrapping_add(b));
    chk!(nd, "C20.nt.wrapping_sub", WrappingSub::wrapping_sub(&a, &b) == a.wrapping_sub(b));
    chk!(nd, "C20.nt.wrapping_neg", WrappingNeg::wrapping_neg(&a) == a.wrapping_neg());
    chk!(nd, "C20.nt.wrapping_shl", WrappingShl::wrapping_shl(&a, s) == a.wrapping_shl(s as usize));
    chk!(nd, "C20.nt.wrapping_shr", WrappingShr::wrapping_shr(&a, s) == a.wrapping_shr(s as usize));
    chk!(nd, "C20.nt.overflowing_add", OverflowingAdd::overflowing_add(&a, &b) == a.overflowing_add(b));
    chk!(nd, "C20.nt.overflowing_sub", OverflowingSub::overflowing_sub(&a, &b) == a.overflowing_sub(b));
    }
    if W == 2 {
    chk!(nd, "C20.nt.to_primitive", a.to_u64() == u64::try_from(a).ok() && a.to_i64() == i64::try_from(a).ok()
        && a.to_u128() == u128::try_from(a).ok() && a.to_i128() == i128::try_from(a).ok());
    chk!(nd, "C20.nt.from_primitive", <U<B, L> as FromPrimitive>::from_u64(w as u64) == U::<B, L>::try_from(w as u64).ok()
        && <U<B, L> as FromPrimitive>::from_i64(w as i64) == U::<B, L>::try_from(w as i64).ok()
        && <U<B, L> as FromPrimitive>::from_u128(w) == U::<B, L>::try_from(w).ok()
        && <U<B, L> as FromPrimitive>::from_i128(w as i128) == U::<B, L>::try_from(w as i128).ok());
    chk!(nd, "C20.nt.numcast", <U<B, L> as NumCast>::from(w as u64) == U::<B, L>::try_from(w as u64).ok());
    }
    if W == 3 {
    chk!(nd, "C20.nt.primint.counts", PrimInt::count_ones(a) as usize == Uint::<B, L>::count_ones(&a)
        && PrimInt::count_zeros(a) as usize == Uint::<B, L>::count_zeros(&a) && PrimInt::leading_zeros(a) as usize == Uint::<B, L>::leading_zeros(&a)
        && PrimInt::leading_ones(a) as usize == Uint::<B, L>::leading_ones(&a) && PrimInt::trailing_zeros(a) as usize == Uint::<B, L>::trailing_zeros(&a)
        && PrimInt::trailing_ones(a) as usize == Uint::<B, L>::trailing_ones(&a));
    chk!(nd, "C20.nt.primint.shifts", PrimInt::signed_shl(a, s) == a.wrapping_shl(s as usize)
        && PrimInt::unsigned_shl(a, s) == a.wrapping_shl(s as usize) && PrimInt::unsigned_shr(a, s) == a.wrapping_shr(s as usize)
        && PrimInt::signed_shr(a, s) == a.arithmetic_shr(s as usize));
    chk!(nd, "C20.nt.primint.reverse_bits", PrimInt::reverse_bits(a) == a.reverse_bits());
    chk!(nd, "C20.nt.primint.le", <U<B, L> as PrimInt>::from_le(a) == a && PrimInt::to_le(a) == a);
    }
}

/// PrimInt rotates (narrow amounts, see C05)
pub fn nt_rotate<const B: usize, const L: usize>(nd: &mut Nd) {
    use num_traits::PrimInt;
    let a: Uint<B, L> = nd.uint();
    let s = nd.u16() as u32;
    chk!(nd, "C20.nt.primint.rotate_left", PrimInt::rotate_left(a, s) == a.rotate_left(s as usize));
    chk!(nd, "C20.nt.primint.rotate_right", PrimInt::rotate_right(a, s) == a.rotate_right(s as usize));
}

/// ToBytes / FromBytes
pub fn nt_bytes<const B: usize, const L: usize, const NB: usize>(nd: &mut Nd) {
    use num_traits::{FromBytes, ToBytes};
    let a: Uint<B, L> = nd.uint();
    let i = nd.upto(NB);
    let le = ToBytes::to_le_bytes(&a);
    let be = ToBytes::to_be_bytes(&a);
    let (wl, wb) = (a.to_le_bytes::<NB>(), a.to_be_bytes::<NB>());
    chk!(nd, "C20.nt.to_bytes.len", le.len() == NB && be.len() == NB);
    if i < NB && le.len() == NB && be.len() == NB {
        chk!(nd, "C20.nt.to_bytes.digit", le[i] == wl[i] && be[i] == wb[i]);
    }
    chk!(nd, "C20.nt.from_le_bytes", <Uint<B, L> as FromBytes>::from_le_bytes(&wl) == a);
    chk!(nd, "C20.nt.from_be_bytes", <Uint<B, L> as FromBytes>::from_be_bytes(&wb) == a);
}

/// multiplication-based facades; inherent multipliers stubbed (tagged mix)
pub fn nt_mul<const B: usize, const L: usize>(nd: &mut Nd) {
    use num_traits::ops::overflowing::OverflowingMul;
    use num_traits::{CheckedMul, MulAdd, MulAddAssign, SaturatingMul, WrappingMul};
    let a: Uint<B, L> = nd.uint();
    let b: Uint<B, L> = nd.uint();
    let c: Uint<B, L> = nd.uint();
    chk!(nd, "C20.nt.checked_mul", CheckedMul::checked_mul(&a, &b) == a.checked_mul(b));
    chk!(nd, "C20.nt.saturating_mul", SaturatingMul::saturating_mul(&a, &b) == a.saturating_mul(b));
    chk!(nd, "C20.nt.wrapping_mul", WrappingMul::wrapping_mul(&a, &b) == a.wrapping_mul(b));
    chk!(nd, "C20.nt.overflowing_mul", OverflowingMul::overflowing_mul(&a, &b) == a.overflowing_mul(b));
    chk!(nd, "C20.nt.mul_add", MulAdd::mul_add(a, b, c) == a.wrapping_mul(b).wrapping_add(c));
    let mut x = a;
    MulAddAssign::mul_add_assign(&mut x, b, c);
    chk!(nd, "C20.nt.mul_add_assign", x == a.wrapping_mul(b).wrapping_add(c));
}

/// division-based facades and the / % operator shapes; `div_rem` stubbed (tagged mix)
pub fn nt_div<const B: usize, const L: usize>(nd: &mut Nd) {
    use num_integer::Integer;
    use num_traits::{CheckedDiv, CheckedEuclid, CheckedRem, Euclid};
    let a: Uint<B, L> = nd.uint();
    let b: Uint<B, L> = nd.uint();
    nd.assume(!refm::is_zero(b.as_limbs()));
    let (q, r) = a.div_rem(b);
    chk!(nd, "C20.inherent.wrapping_div_rem", a.wrapping_div(b) == q && a.wrapping_rem(b) == r);
    chk!(nd, "C20.op.div", a / b == q && a / &b == q && &a / b == q && &a / &b == q);
    chk!(nd, "C20.op.rem", a % b == r && a % &b == r && &a % b == r && &a % &b == r);
    let mut x = a;
    x /= b;
    let mut y = a;
    y /= &b;
    chk!(nd, "C20.op.div_assign", x == q && y == q);
    let mut x = a;
    x %= b;
    let mut y = a;
    y %= &b;
    chk!(nd, "C20.op.rem_assign", x == r && y == r);
    chk!(nd, "C20.nt.checked_div", CheckedDiv::checked_div(&a, &b) == Some(q));
    chk!(nd, "C20.nt.checked_rem", CheckedRem::checked_rem(&a, &b) == Some(r));
    chk!(nd, "C20.nt.euclid", Euclid::div_euclid(&a, &b) == q && Euclid::rem_euclid(&a, &b) == r);
    chk!(nd, "C20.nt.checked_euclid", CheckedEuclid::checked_div_euclid(&a, &b) == Some(q)
        && CheckedEuclid::checked_rem_euclid(&a, &b) == Some(r));
    chk!(nd, "C20.ni.div_floor", Integer::div_floor(&a, &b) == q && Integer::mod_floor(&a, &b) == r);
    chk!(nd, "C20.ni.div_rem", Integer::div_rem(&a, &b) == (q, r) && Integer::div_mod_floor(&a, &b) == (q, r));
    chk!(nd, "C20.ni.div_ceil", Integer::div_ceil(&a, &b) == a.div_ceil(b));
    chk!(nd, "C20.ni.is_multiple_of", Integer::is_multiple_of(&a, &b) == r.is_zero());
}

/// zero divisor in the checked trait forms; parity and inc/dec
pub fn nt_misc<const B: usize, const L: usize>(nd: &mut Nd) {
    use num_integer::Integer;
    use num_traits::{CheckedDiv, CheckedEuclid, CheckedRem};
    let a: Uint<B, L> = nd.uint();
    let z = Uint::<B, L>::ZERO;
    chk!(nd, "C20.nt.checked_div_zero", CheckedDiv::checked_div(&a, &z).is_none() && CheckedRem::checked_rem(&a, &z).is_none()
        && CheckedEuclid::checked_div_euclid(&a, &z).is_none() && CheckedEuclid::checked_rem_euclid(&a, &z).is_none());
    chk!(nd, "C20.ni.is_multiple_of_zero", Integer::is_multiple_of(&a, &z) == a.is_zero());
    chk!(nd, "C20.ni.parity", Integer::is_even(&a) == !a.bit(0) && Integer::is_odd(&a) == a.bit(0));
    let mut x = a;
    Integer::inc(&mut x);
    chk!(nd, "C20.ni.inc", x == a.wrapping_add(Uint::<B, L>::ONE));
    let mut x = a;
    Integer::dec(&mut x);
    chk!(nd, "C20.ni.dec", x == a.wrapping_sub(Uint::<B, L>::ONE));
}

/// iterator Sum / Product by value and by reference = left fold of the inherent wrapping ops from ZERO / ONE
/// (wrapping_mul stubbed by a tagged mix), 0..=3 elements
pub fn sum_product<const B: usize, const L: usize>(nd: &mut Nd) {
    let xs: [Uint<B, L>; 3] = [nd.uint(), nd.uint(), nd.uint()];
    let n = nd.upto(3);
    let mut s = Uint::<B, L>::ZERO;
    let mut p = if B == 0 { Uint::<B, L>::ZERO } else { Uint::<B, L>::ONE };
    let mut i = 0;
    while i < 3 {
        if i < n {
            s = s.wrapping_add(xs[i]);
            if B > 0 {
                p = p.wrapping_mul(xs[i]);
            }
        }
        i += 1;
    }
    let s1: Uint<B, L> = xs[..n].iter().copied().sum();
    let s2: Uint<B, L> = xs[..n].iter().sum();
    let p1: Uint<B, L> = xs[..n].iter().copied().product();
    let p2: Uint<B, L> = xs[..n].iter().product();
    cov!(nd, "empty", n == 0);
    chk!(nd, "C20.sum.by_value", s1 == s);
    chk!(nd, "C20.sum.by_ref", s2 == s);
    chk!(nd, "C20.product.by_value", p1 == p);
    chk!(nd, "C20.product.by_ref", p2 == p);
}

/// num-traits / num-integer facades over the expensive inherent methods (pow, inv_ring, gcd, lcm, gcd_extended), which are
/// replaced by tagged mixing functions: only the forwarding (argument order, Option handling, tuple projection) is decided.
pub fn nt_forward<const B: usize, const L: usize>(nd: &mut Nd) {
    use num_integer::Integer;
    use num_traits::{Inv, Pow, PrimInt};
    let a: Uint<B, L> = nd.uint();
    let b: Uint<B, L> = nd.uint();
    let e = nd.u32();
    chk!(nd, "C20.nt.pow", Pow::pow(a, b) == a.pow(b));
    chk!(nd, "C20.nt.inv", Inv::inv(a) == a.inv_ring());
    chk!(nd, "C20.integer.gcd", Integer::gcd(&a, &b) == a.gcd(b));
    let x = Integer::extended_gcd(&a, &b);
    let (g, s, t, _) = a.gcd_extended(b);
    chk!(nd, "C20.integer.extended_gcd", x.gcd == g && x.x == s && x.y == t);
    // PrimInt::pow takes a u32 exponent: compared wherever the exponent is expressible in the inherent signature
    if let Ok(eu) = Uint::<B, L>::try_from(e) {
        cov!(nd, "primint-pow", true);
        chk!(nd, "C20.nt.primint.pow", PrimInt::pow(a, e) == a.pow(eu));
    }
    if let Some(l) = a.lcm(b) {
        cov!(nd, "lcm-some", true);
        chk!(nd, "C20.integer.lcm", Integer::lcm(&a, &b) == l);
    }
}

/// Integer::lcm panics exactly when the inherent lcm reports None (a failure its signature cannot express)
pub fn nt_lcm_none_panics<const B: usize, const L: usize>(nd: &mut Nd) {
    use num_integer::Integer;
    let a: Uint<B, L> = nd.uint();
    let b: Uint<B, L> = nd.uint();
    nd.assume(a.lcm(b).is_none());
    cov!(nd, "before-call", true);
    let _ = Integer::lcm(&a, &b);
    cov!(nd, "returned", true);
}

/// PrimInt byte-order facades at widths that are a multiple of 8: swap_bytes reverses the BYTES base-256 digits,
/// to_be/from_be are swap_bytes (little-endian target), to_le/from_le the identity
pub fn nt_swap_bytes<const B: usize, const L: usize, const NB: usize>(nd: &mut Nd) {
    use num_traits::PrimInt;
    let a: Uint<B, L> = nd.uint();
    let k = nd.below(if NB == 0 { 1 } else { NB });
    let sw = PrimInt::swap_bytes(a);
    if NB > 0 {
        chk!(nd, "C20.nt.swap_bytes.byte", refm::byte(sw.as_limbs(), k) == refm::byte(a.as_limbs(), NB - 1 - k));
    }
    chk!(nd, "C20.nt.swap_bytes.canonical", refm::canonical(sw.as_limbs(), B));
    chk!(nd, "C20.nt.to_be", PrimInt::to_be(a) == sw && <Uint<B, L> as PrimInt>::from_be(a) == sw);
    chk!(nd, "C20.nt.to_le", PrimInt::to_le(a) == a && <Uint<B, L> as PrimInt>::from_le(a) == a);
}

/// zeroize: the value reads as zero afterwards, whatever it was
pub fn zeroize_facade<const B: usize, const L: usize>(nd: &mut Nd) {
    use zeroize::Zeroize;
    let mut a: Uint<B, L> = nd.uint();
    a.zeroize();
    chk!(nd, "C20.zeroize", refm::is_zero(a.as_limbs()) && a == Uint::<B, L>::ZERO);
}
