//! Uninterpreted 64x64->128 multiplication ("UF layer", DESIGN 4.2).
//!
//! Under Kani the three `DoubleWord` multiply bodies of /repo are stubbed by
//! the functions below, which look the operands up in a table of products that
//! the harness drew up front (`setup`), constrained only by the axioms the code
//! may legitimately rely on: 0*x = 0, 1*x = x, commutativity, functional
//! consistency (equal keys => equal products), x*y <= (2^64-1)^2 and
//! x*y >= max(x, y) for x, y >= 1.  The
//! reference models use the same `umul`.  Natively (replay) `umul` is the real
//! product and nothing is stubbed.

#[cfg(kani)]
const CAP: usize = 16;
#[cfg(kani)]
static mut KEYS: [(u64, u64); CAP] = [(0, 0); CAP];
#[cfg(kani)]
static mut VALS: [u128; CAP] = [0; CAP];
#[cfg(kani)]
static mut N: usize = 0;

pub const MAXP: u128 = (u64::MAX as u128) * (u64::MAX as u128);

// the table scans are unrolled by macro: a loop here would force the harness'
// global unwinding bound up to CAP and with it every kernel loop (measured:
// 1x1-limb addmul 300 s with loops, seconds without)
#[cfg(kani)]
macro_rules! slots {
    ($m:ident) => {
        $m!(0);
        $m!(1);
        $m!(2);
        $m!(3);
        $m!(4);
        $m!(5);
        $m!(6);
        $m!(7);
        $m!(8);
        $m!(9);
        $m!(10);
        $m!(11);
        $m!(12);
        $m!(13);
        $m!(14);
        $m!(15);
    };
}

/// register the product a*b (draws one u128 unless a trivial axiom decides it)
#[cfg(kani)]
pub fn declare(a: u64, b: u64) {
    unsafe {
        let n = N;
        assert!(n < CAP, "uf table capacity");
        let p: u128 = kani::any();
        kani::assume(p <= MAXP);
        // structural axioms
        if a == 0 || b == 0 {
            kani::assume(p == 0);
        }
        if a == 1 {
            kani::assume(p == b as u128);
        }
        if b == 1 {
            kani::assume(p == a as u128);
        }
        // a, b >= 1  =>  a*b >= max(a, b)   (in particular non-zero)
        if a >= 1 && b >= 1 {
            kani::assume(p >= a as u128 && p >= b as u128);
        }
        // functional consistency with every earlier entry, also commuted
        macro_rules! consist {
            ($i:expr) => {
                if $i < n {
                    let (ka, kb) = KEYS[$i];
                    if (ka == a && kb == b) || (ka == b && kb == a) {
                        kani::assume(p == VALS[$i]);
                    }
                }
            };
        }
        slots!(consist);
        KEYS[n] = (a, b);
        VALS[n] = p;
        N = n + 1;
    }
}

#[cfg(not(kani))]
pub fn declare(_a: u64, _b: u64) {}

/// declare all products of two operand arrays
pub fn declare_all(a: &[u64], b: &[u64]) {
    let mut i = 0;
    while i < a.len() {
        let mut j = 0;
        while j < b.len() {
            declare(a[i], b[j]);
            j += 1;
        }
        i += 1;
    }
}

#[cfg(kani)]
pub fn umul(a: u64, b: u64) -> u128 {
    unsafe {
        let n = N;
        macro_rules! look {
            ($i:expr) => {
                if $i < n {
                    let (ka, kb) = KEYS[$i];
                    if (ka == a && kb == b) || (ka == b && kb == a) {
                        return VALS[$i];
                    }
                }
            };
        }
        slots!(look);
    }
    // unknown key: a fresh unconstrained (but in-range) product - sound over-approximation
    let p: u128 = kani::any();
    kani::assume(p <= MAXP);
    if a == 0 || b == 0 {
        kani::assume(p == 0);
    } else {
        kani::assume(p >= a as u128 && p >= b as u128);
    }
    if a == 1 {
        kani::assume(p == b as u128);
    }
    if b == 1 {
        kani::assume(p == a as u128);
    }
    p
}

#[cfg(not(kani))]
pub fn umul(a: u64, b: u64) -> u128 {
    (a as u128) * (b as u128)
}

// ---- stub bodies for ruint::algorithms::DoubleWord<u64> for u128
pub fn mul_stub(a: u64, b: u64) -> u128 {
    umul(a, b)
}
pub fn muladd_stub(a: u64, b: u64, c: u64) -> u128 {
    umul(a, b) + c as u128
}
pub fn muladd2_stub(a: u64, b: u64, c: u64, d: u64) -> u128 {
    umul(a, b) + c as u128 + d as u128
}

/// acc += x * 2^(64*k)  on a W-limb accumulator; returns carry out of W limbs
#[inline(always)]
pub fn add_at<const W: usize>(acc: &mut [u64; W], x: u128, k: usize) -> bool {
    let mut carry: u128 = 0;
    let mut i = 0;
    let mut lost = false;
    while i < W {
        if i >= k {
            let part: u128 = if i == k {
                (x as u64) as u128
            } else if i == k + 1 {
                (x >> 64) as u128
            } else {
                0
            };
            let s = acc[i] as u128 + part + carry;
            acc[i] = s as u64;
            carry = s >> 64;
        }
        i += 1;
    }
    // parts of x that lie beyond the accumulator
    if k >= W {
        lost |= x != 0;
    } else if k + 1 >= W {
        lost |= (x >> 64) != 0;
    }
    lost || carry != 0
}

/// schoolbook: acc + a*b over `umul`, into W limbs; returns "did not fit W limbs"
#[inline(always)]
pub fn school<const W: usize>(acc: &mut [u64; W], a: &[u64], b: &[u64]) -> bool {
    let mut over = false;
    let mut i = 0;
    while i < a.len() {
        let mut j = 0;
        while j < b.len() {
            over |= add_at::<W>(acc, umul(a[i], b[j]), i + j);
            j += 1;
        }
        i += 1;
    }
    over
}

/// schoolbook over Rust's own `u128 *` (no abstraction): acc + a*b into W limbs; returns "did not fit W limbs".
/// Used with LATTICE operands (few free bits per limb), where the real multiplier circuit is cheap.
#[inline(always)]
pub fn school_real<const W: usize>(acc: &mut [u64; W], a: &[u64], b: &[u64]) -> bool {
    let mut over = false;
    let mut i = 0;
    while i < a.len() {
        let mut j = 0;
        while j < b.len() {
            over |= add_at::<W>(acc, (a[i] as u128) * (b[j] as u128), i + j);
            j += 1;
        }
        i += 1;
    }
    over
}
