//! C14 — limb-slice division kernels meet their documented contracts.
//!
//! Domains are LATTICE (DESIGN 4.2): limbs are built structurally from a few
//! free bits placed at the boundaries (low end, high end, under all-ones,
//! under a set top bit).  Oracles are *constructive*: draw q, d, r with r < d,
//! build n = q*d + r exactly (using only 8x64-bit products, see `pat_mul`),
//! run the kernel on (n, d) and demand exactly (q, r); Euclidean division is
//! unique, so this is complete on the image of the construction.

use crate::nd::Nd;
use crate::refm;
use crate::uf::add_at;
use ruint::algorithms::div as dv;

/// structurally narrow limb: 8 free bits placed by a 2-bit pattern choice
#[inline(always)]
pub fn pat(x: u8, sel: u8) -> u64 {
    match sel & 3 {
        0 => x as u64,
        1 => (x as u64) << 56,
        2 => !(x as u64),
        _ => (1u64 << 63) | (x as u64) << 24,
    }
}

/// exact product pat(x, sel) * b using only an 8x64-bit multiplication
#[inline(always)]
pub fn pat_mul(x: u8, sel: u8, b: u64) -> u128 {
    let xb = (x as u128) * (b as u128); // < 2^72
    match sel & 3 {
        0 => xb,
        1 => xb << 56,
        2 => ((b as u128) << 64) - (b as u128) - xb, // (2^64 - 1 - x) * b
        _ => ((b as u128) << 63) + (xb << 24),
    }
}

/// normalised divisor limb: top bit set, 8 free bits below it, `fill` for the
/// middle, 4 free low bits
#[inline(always)]
fn norm_limb(row: u8, fill: bool, low: u8) -> u64 {
    (1u64 << 63) | ((row as u64) << 55) | (if fill { ((1u64 << 55) - 1) & !0xf } else { 0 }) | (low & 0xf) as u64
}

/// narrower normalised limb for harnesses that evaluate `reciprocal` several times (every div_2x1 /
/// div_3x2 call re-derives it in a debug assertion): rows 0, 85, 170, 255 of the table (2 free bits),
/// fill, 2 free low bits
#[inline(always)]
fn norm_limb_few(sel: u8, fill: bool, low: u8) -> u64 {
    norm_limb((sel & 3) * 85, fill, low & 3)
}

/// reciprocal(d) = floor((2^128 - 1) / d) - 2^64 on all 256 table rows
pub fn reciprocal(nd: &mut Nd) {
    let d = norm_limb(nd.u8(), nd.bool(), nd.u8());
    let want = (u128::MAX / d as u128) as u64; // low word = value - 2^64
    chk!(nd, "C14.reciprocal.value", dv::reciprocal(d) == want);
    cov!(nd, "row-255", d >> 55 == 511);
    cov!(nd, "row-0", d >> 55 == 256);
}

/// the two documented extreme divisors, concretely
pub fn reciprocal_extremes(nd: &mut Nd) {
    let pick = nd.bool();
    let d = if pick { 1u64 << 63 } else { u64::MAX };
    let want = (u128::MAX / d as u128) as u64;
    chk!(nd, "C14.reciprocal.extreme", dv::reciprocal(d) == want);
    let d2 = if pick { 1u128 << 127 } else { u128::MAX };
    // floor((2^192 - 1) / d) - 2^64:  d = 2^127 -> 2^65 - 1 - 2^64 = 2^64 - 1;  d = 2^128 - 1 -> 2^64 - 2^64 = 0
    let want2 = if pick { u64::MAX } else { 0 };
    chk!(nd, "C14.reciprocal_2.extreme", dv::reciprocal_2(d2) == want2);
}

/// reciprocal_2(d) = floor((2^192 - 1) / d) - 2^64, by its defining inequality
/// (2^64 + v) * d <= 2^192 - 1 < (2^64 + v + 1) * d, products by shift-and-add
pub fn reciprocal_2(nd: &mut Nd) {
    let d1 = norm_limb(nd.u8(), nd.bool(), 0);
    let d0 = pat(nd.u8(), nd.u8());
    let d = ((d1 as u128) << 64) | d0 as u128;
    let v = dv::reciprocal_2(d);
    // (2^64 + v) * d as a 4-limb number: d << 64 + v * d
    let dl: [u64; 4] = [d0, d1, 0, 0];
    let vl: [u64; 4] = [v, 0, 0, 0];
    let (vd, _) = refm::mul_shift_add(&dl, &vl, 64);
    let (lo, c1) = refm::add(&vd, &[0, d0, d1, 0], false);
    // lo <= 2^192 - 1  <=>  limb 3 zero and no carry
    chk!(nd, "C14.reciprocal_2.not_too_large", !c1 && lo[3] == 0);
    // lo + d > 2^192 - 1  <=>  limb 3 non-zero or carry
    let (hi, c2) = refm::add(&lo, &dl, false);
    chk!(nd, "C14.reciprocal_2.not_too_small", c2 || hi[3] != 0);
}

/// div_2x1(u, d, reciprocal(d)) == (q, r) for u = q*d + r
pub fn div_2x1(nd: &mut Nd) {
    let d = norm_limb_few(nd.u8(), nd.bool(), nd.u8());
    let (xq, sq) = (nd.u8(), nd.u8());
    let (rl, rs) = (nd.u8() & 0xf, nd.bool());
    let q = pat(xq, sq);
    let r = if rs { d - 1 - rl as u64 } else { rl as u64 };
    // u = q*d + r < d * 2^64 always fits 128 bits
    let u = pat_mul(xq, sq, d) + r as u128;
    let v = dv::reciprocal(d);
    let got = dv::div_2x1(u, d, v);
    chk!(nd, "C14.div_2x1.quotient", got.0 == q);
    chk!(nd, "C14.div_2x1.remainder", got.1 == r);
    // (div_2x1_ref is a native u128 / u64 division: a symbolic 128-bit divider does not finish)
}

/// div_3x2(u21, u0, d, reciprocal_2(d)) == (q, r) for u = q*d + r
pub fn div_3x2(nd: &mut Nd) {
    let d1 = norm_limb_few(nd.u8(), nd.bool(), 0);
    let (x0, s0) = (nd.u8(), nd.u8());
    let d0 = pat(x0, s0);
    let (xq, sq) = (nd.u8(), nd.u8());
    let (rl, rs) = (nd.u8() & 0xf, nd.bool());
    let d = ((d1 as u128) << 64) | d0 as u128;
    let q = pat(xq, sq);
    let r: u128 = if rs { d - 1 - rl as u128 } else { rl as u128 };
    // u = q*d + r in three limbs
    let mut u = [0u64; 3];
    let _ = add_at::<3>(&mut u, pat_mul(xq, sq, d0), 0);
    let _ = add_at::<3>(&mut u, pat_mul(xq, sq, d1), 1);
    let _ = add_at::<3>(&mut u, r, 0);
    let u21 = ((u[2] as u128) << 64) | u[1] as u128;
    let v = dv::reciprocal_2(d);
    let got = dv::div_3x2(u21, u[0], d, v);
    chk!(nd, "C14.div_3x2.quotient", got.0 == q);
    chk!(nd, "C14.div_3x2.remainder", got.1 == r);
}

// ------------------------------------------------ slice kernels, fixed shapes

/// divisor limb by code: 0 = zero, 1 = all ones, 2 = 8 free low bits, 3 = ones over 8 free low bits,
/// 4 = 8 free high bits, 5 = top bit + 8 free low bits (normalised), 6 = one, 7 = 2^63,
/// 8 = bit 31 + 8 free low bits (un-normalised top limb), 9 = 8 free high bits over ones
#[inline(always)]
fn coded(code: u64, x: u8) -> u64 {
    match code {
        0 => 0,
        1 => u64::MAX,
        2 => x as u64,
        3 => !(x as u64),
        4 => (x as u64) << 56,
        5 => (1u64 << 63) | x as u64,
        6 => 1,
        7 => 1u64 << 63,
        8 => (1u64 << 31) | x as u64,
        _ => ((x as u64) << 56) | 0x00ff_ffff_ffff_ffff,
    }
}

pub fn coded_pub(code: u64, x: u8) -> u64 {
    coded(code, x)
}

#[inline(always)]
fn coded_limbs<const N: usize>(nd: &mut Nd, codes: u64) -> [u64; N] {
    let mut l = [0u64; N];
    let mut i = 0;
    while i < N {
        let code = (codes >> (4 * i)) & 0xf;
        let x = match code {
            0 | 1 | 6 | 7 => 0,
            _ => nd.u8(),
        };
        l[i] = coded(code, x);
        i += 1;
    }
    l
}

/// n = q*d + r for a quotient given as (x, sel) pattern limbs; returns (n, overflowed NN limbs)
#[inline(always)]
fn build<const NQ: usize, const ND: usize, const NN: usize>(
    qx: &[u8; NQ],
    qs: &[u8; NQ],
    d: &[u64; ND],
    r: &[u64; ND],
) -> ([u64; NN], bool) {
    let mut n = [0u64; NN];
    let mut over = false;
    let mut i = 0;
    while i < NQ {
        let mut j = 0;
        while j < ND {
            over |= add_at::<NN>(&mut n, pat_mul(qx[i], qs[i], d[j]), i + j);
            j += 1;
        }
        i += 1;
    }
    let mut j = 0;
    while j < ND {
        over |= add_at::<NN>(&mut n, r[j] as u128, j);
        j += 1;
    }
    (n, over)
}

/// remainder below d: either small (8 free bits) or d - 1 - small
#[inline(always)]
fn rem_below<const ND: usize>(nd: &mut Nd, d: &[u64; ND]) -> [u64; ND] {
    let small = nd.u8();
    let high = nd.bool();
    let mut s = [0u64; ND];
    s[0] = small as u64;
    if high {
        let (t, _) = refm::sub(d, &s, false);
        let mut one = [0u64; ND];
        one[0] = 1;
        let (t, b) = refm::sub(&t, &one, false);
        nd.assume(!b && !refm::lt(d, &s)); // d - 1 - small >= 0
        t
    } else {
        nd.assume(refm::lt(&s, d));
        s
    }
}

/// generic fixed-shape harness: WHICH = 0 div_nx1 (ND = 1), 1 div_nx2 (ND = 2), 2 div_nxm (ND >= 3),
/// 3 algorithms::div (any ND).  DC = divisor limb codes, NQ = NN - ND + 1 quotient limbs.
pub fn slice_div<
    const NN: usize,
    const ND: usize,
    const NQ: usize,
    const DC: u64,
    const WHICH: usize,
    const PAD: usize,
    const NP: usize,
    const DP: usize,
>(
    nd: &mut Nd,
) {
    let d: [u64; ND] = coded_limbs(nd, DC);
    let mut qx = [0u8; NQ];
    let mut qs = [0u8; NQ];
    let mut i = 0;
    while i < NQ {
        qx[i] = nd.u8();
        qs[i] = nd.u8();
        i += 1;
    }
    let r = rem_below(nd, &d);
    let (n, over) = build::<NQ, ND, NN>(&qx, &qs, &d, &r);
    nd.assume(!over);
    let mut q = [0u64; NN];
    let mut i = 0;
    while i < NQ {
        q[i] = pat(qx[i], qs[i]);
        i += 1;
    }
    match WHICH {
        0 => {
            nd.assume(n[NN - 1] != 0);
            let mut num = n;
            let rem = dv::div_nx1(&mut num, d[0]);
            chk!(nd, "C14.div_nx1.quotient", refm::eq(&num, &q));
            chk!(nd, "C14.div_nx1.remainder", rem == r[0]);
            if d[0] >= 1 << 63 {
                let mut num = n;
                let rem = dv::div_nx1_normalized(&mut num, d[0]);
                chk!(nd, "C14.div_nx1_normalized.agrees", refm::eq(&num, &q) && rem == r[0]);
            }
        }
        1 => {
            nd.assume(n[NN - 1] != 0);
            let dd = ((d[1] as u128) << 64) | d[0] as u128;
            let rr = ((r[1] as u128) << 64) | r[0] as u128;
            let mut num = n;
            let rem = dv::div_nx2(&mut num, dd);
            chk!(nd, "C14.div_nx2.quotient", refm::eq(&num, &q));
            chk!(nd, "C14.div_nx2.remainder", rem == rr);
            if d[1] >= 1 << 63 {
                let mut num = n;
                let rem = dv::div_nx2_normalized(&mut num, dd);
                chk!(nd, "C14.div_nx2_normalized.agrees", refm::eq(&num, &q) && rem == rr);
            }
        }
        2 => {
            let mut num = n;
            let mut div = d;
            dv::div_nxm(&mut num, &mut div);
            chk!(nd, "C14.div_nxm.quotient", refm::eq(&num, &q));
            chk!(nd, "C14.div_nxm.remainder", refm::eq(&div, &r));
        }
        _ => {
            // algorithms::div with PAD zero limbs of leading-zero padding on both operands
            let mut num = [0u64; NP];
            let mut div = [0u64; DP];
            let mut i = 0;
            while i < NN {
                num[i] = n[i];
                i += 1;
            }
            let mut i = 0;
            while i < ND {
                div[i] = d[i];
                i += 1;
            }
            ruint::algorithms::div(&mut num, &mut div);
            let mut okq = true;
            let mut i = 0;
            while i < NP {
                okq &= num[i] == if i < NN { q[i] } else { 0 };
                i += 1;
            }
            let mut okr = true;
            let mut i = 0;
            while i < DP {
                okr &= div[i] == if i < ND { r[i] } else { 0 };
                i += 1;
            }
            chk!(nd, "C14.div.quotient_in_numerator", okq);
            chk!(nd, "C14.div.remainder_in_divisor", okr);
        }
    }
}

/// algorithms::div when the numerator is shorter than (or zero against) the divisor:
/// quotient 0, remainder = numerator, padding zeroed
pub fn div_short<const NN: usize, const ND: usize, const DC: u64>(nd: &mut Nd) {
    let d: [u64; ND] = coded_limbs(nd, DC);
    let mut n = [0u64; NN];
    let zero = nd.bool();
    let mut i = 0;
    while i < NN {
        n[i] = if zero { 0 } else { pat(nd.u8(), nd.u8()) };
        i += 1;
    }
    // value(n) < value(d) is guaranteed when NN < ND and d's top limb is non-zero by code
    let mut num = n;
    let mut div = d;
    ruint::algorithms::div(&mut num, &mut div);
    chk!(nd, "C14.div.short.quotient_zero", refm::is_zero(&num));
    let mut ok = true;
    let mut i = 0;
    while i < ND {
        ok &= div[i] == if i < NN { n[i] } else { 0 };
        i += 1;
    }
    chk!(nd, "C14.div.short.remainder_is_numerator", ok);
}

/// div_3x2 for a CONSTANT normalised divisor d = DH*2^64 + DL (one harness per divisor) and EVERY numerator: the harness
/// draws any quotient limb q and any remainder r < d, builds u = q*d + r exactly and demands (q, r) back.  With d constant
/// the reciprocal, the debug assertion that re-derives it and one operand of every product are constants, which is what
/// makes this kernel tractable at all (with a symbolic divisor it did not finish in 3000 s).
pub fn div_3x2_const<const DH: u64, const DL: u64>(nd: &mut Nd) {
    let d: u128 = ((DH as u128) << 64) | DL as u128;
    let q = nd.u64();
    let r = nd.u128();
    nd.assume(r < d);
    let mut u = [0u64; 3];
    let _ = add_at::<3>(&mut u, (q as u128) * (DL as u128), 0);
    let _ = add_at::<3>(&mut u, (q as u128) * (DH as u128), 1);
    let _ = add_at::<3>(&mut u, r, 0);
    let u21 = ((u[2] as u128) << 64) | u[1] as u128;
    let v = dv::reciprocal_2(d);
    cov!(nd, "exact-multiple", r == 0 && q > 1 << 63);
    cov!(nd, "top-quotient", q == u64::MAX);
    let got = dv::div_3x2(u21, u[0], d, v);
    chk!(nd, "C14.div_3x2.quotient", got.0 == q);
    chk!(nd, "C14.div_3x2.remainder", got.1 == r);
}

/// as `div_3x2_const`, on the sub-domain "near-exact multiples": any quotient limb q, remainder r in {0..=3} or
/// {d-4..=d-1} (the boundary cases of the two correction steps)
pub fn div_3x2_const_edge<const DH: u64, const DL: u64>(nd: &mut Nd) {
    let d: u128 = ((DH as u128) << 64) | DL as u128;
    let q = nd.u64();
    let rs = nd.u8();
    let r: u128 = if rs & 4 != 0 { d - 1 - (rs & 3) as u128 } else { (rs & 3) as u128 };
    let mut u = [0u64; 3];
    let _ = add_at::<3>(&mut u, (q as u128) * (DL as u128), 0);
    let _ = add_at::<3>(&mut u, (q as u128) * (DH as u128), 1);
    let _ = add_at::<3>(&mut u, r, 0);
    let u21 = ((u[2] as u128) << 64) | u[1] as u128;
    let v = dv::reciprocal_2(d);
    cov!(nd, "exact-multiple", r == 0 && q > 1 << 63);
    cov!(nd, "top-quotient", q == u64::MAX);
    let got = dv::div_3x2(u21, u[0], d, v);
    chk!(nd, "C14.div_3x2.quotient", got.0 == q);
    chk!(nd, "C14.div_3x2.remainder", got.1 == r);
}
