//! C01 — addition, subtraction and negation are exact in the ring mod 2^BITS.

use crate::nd::Nd;
use crate::refm;
use ruint::Uint;

/// reference: (a + b) mod 2^B and "unreduced sum >= 2^B"
#[inline(always)]
fn ref_add<const L: usize>(bits: usize, a: &[u64; L], b: &[u64; L]) -> ([u64; L], bool) {
    let (s, c) = refm::add(a, b, false);
    let o = c || !refm::canonical(&s, bits);
    (refm::masked(s, bits), o && bits > 0)
}

/// reference: (a - b) mod 2^B and "a < b"
#[inline(always)]
fn ref_sub<const L: usize>(bits: usize, a: &[u64; L], b: &[u64; L]) -> ([u64; L], bool) {
    let (s, _) = refm::sub(a, b, false);
    (refm::masked(s, bits), refm::lt(a, b))
}

/// the inherent methods
pub fn methods<const B: usize, const L: usize>(nd: &mut Nd) {
    let a: Uint<B, L> = nd.uint();
    let b: Uint<B, L> = nd.uint();
    let (la, lb) = (*a.as_limbs(), *b.as_limbs());
    let max = refm::max::<L>(B);
    let zero = [0u64; L];

    // addition
    let (ws, wo) = ref_add(B, &la, &lb);
    let (r, o) = a.overflowing_add(b);
    chk!(nd, "C01.overflowing_add.value", refm::eq(r.as_limbs(), &ws));
    chk!(nd, "C01.overflowing_add.flag", o == wo);
    chk!(nd, "C01.wrapping_add.value", refm::eq(a.wrapping_add(b).as_limbs(), &ws));
    match a.checked_add(b) {
        Some(x) => chk!(nd, "C01.checked_add.some", !wo && refm::eq(x.as_limbs(), &ws)),
        None => chk!(nd, "C01.checked_add.none", wo),
    }
    let sat = a.saturating_add(b);
    chk!(nd, "C01.saturating_add.value", refm::eq(sat.as_limbs(), if wo { &max } else { &ws }));
    cov!(nd, "add-overflows", wo);
    cov!(nd, "add-fits", !wo);

    // subtraction
    let (wd, wb) = ref_sub(B, &la, &lb);
    let (r, o) = a.overflowing_sub(b);
    chk!(nd, "C01.overflowing_sub.value", refm::eq(r.as_limbs(), &wd));
    chk!(nd, "C01.overflowing_sub.flag", o == wb);
    chk!(nd, "C01.wrapping_sub.value", refm::eq(a.wrapping_sub(b).as_limbs(), &wd));
    match a.checked_sub(b) {
        Some(x) => chk!(nd, "C01.checked_sub.some", !wb && refm::eq(x.as_limbs(), &wd)),
        None => chk!(nd, "C01.checked_sub.none", wb),
    }
    let sat = a.saturating_sub(b);
    chk!(nd, "C01.saturating_sub.value", refm::eq(sat.as_limbs(), if wb { &zero } else { &wd }));

    // negation: -a mod 2^B, overflow iff a != 0
    let (wn, _) = ref_sub(B, &zero, &la);
    let nz = !refm::is_zero(&la);
    let (r, o) = a.overflowing_neg();
    chk!(nd, "C01.overflowing_neg.value", refm::eq(r.as_limbs(), &wn));
    chk!(nd, "C01.overflowing_neg.flag", o == nz);
    chk!(nd, "C01.wrapping_neg.value", refm::eq(a.wrapping_neg().as_limbs(), &wn));
    match a.checked_neg() {
        Some(x) => chk!(nd, "C01.checked_neg.some", !nz && refm::is_zero(x.as_limbs())),
        None => chk!(nd, "C01.checked_neg.none", nz),
    }
    // a + (-a) == 0 in the ring (independent of ref_sub)
    let (back, _) = ref_add(B, &la, r.as_limbs());
    chk!(nd, "C01.neg.inverse", refm::is_zero(&back));

    // abs_diff = |a - b|
    let ad = a.abs_diff(b);
    let want = if wb { ref_sub(B, &lb, &la).0 } else { wd };
    chk!(nd, "C01.abs_diff.value", refm::eq(ad.as_limbs(), &want));
}

/// the operator impls (six shapes per binary operator, two for unary minus)
pub fn operators<const B: usize, const L: usize>(nd: &mut Nd) {
    let a: Uint<B, L> = nd.uint();
    let b: Uint<B, L> = nd.uint();
    let (la, lb) = (*a.as_limbs(), *b.as_limbs());
    let (ws, _) = ref_add(B, &la, &lb);
    let (wd, _) = ref_sub(B, &la, &lb);
    let (wn, _) = ref_sub(B, &[0u64; L], &la);
    chk!(nd, "C01.op.add.vv", refm::eq((a + b).as_limbs(), &ws));
    chk!(nd, "C01.op.add.vr", refm::eq((a + &b).as_limbs(), &ws));
    chk!(nd, "C01.op.add.rv", refm::eq((&a + b).as_limbs(), &ws));
    chk!(nd, "C01.op.add.rr", refm::eq((&a + &b).as_limbs(), &ws));
    let mut x = a;
    x += b;
    chk!(nd, "C01.op.add_assign.v", refm::eq(x.as_limbs(), &ws));
    let mut x = a;
    x += &b;
    chk!(nd, "C01.op.add_assign.r", refm::eq(x.as_limbs(), &ws));
    chk!(nd, "C01.op.sub.vv", refm::eq((a - b).as_limbs(), &wd));
    chk!(nd, "C01.op.sub.vr", refm::eq((a - &b).as_limbs(), &wd));
    chk!(nd, "C01.op.sub.rv", refm::eq((&a - b).as_limbs(), &wd));
    chk!(nd, "C01.op.sub.rr", refm::eq((&a - &b).as_limbs(), &wd));
    let mut x = a;
    x -= b;
    chk!(nd, "C01.op.sub_assign.v", refm::eq(x.as_limbs(), &wd));
    let mut x = a;
    x -= &b;
    chk!(nd, "C01.op.sub_assign.r", refm::eq(x.as_limbs(), &wd));
    chk!(nd, "C01.op.neg.v", refm::eq((-a).as_limbs(), &wn));
    chk!(nd, "C01.op.neg.r", refm::eq((-&a).as_limbs(), &wn));
}

/// iterator sums over 0..=3 elements, by value and by reference
pub fn sums<const B: usize, const L: usize>(nd: &mut Nd) {
    let xs: [Uint<B, L>; 3] = [nd.uint(), nd.uint(), nd.uint()];
    let n = nd.upto(3);
    let mut want = [0u64; L];
    let mut i = 0;
    while i < 3 {
        if i < n {
            want = ref_add(B, &want, xs[i].as_limbs()).0;
        }
        i += 1;
    }
    let s1: Uint<B, L> = xs[..n].iter().copied().sum();
    let s2: Uint<B, L> = xs[..n].iter().sum();
    chk!(nd, "C01.sum.by_value", refm::eq(s1.as_limbs(), &want));
    chk!(nd, "C01.sum.by_ref", refm::eq(s2.as_limbs(), &want));
}
