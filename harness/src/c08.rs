//! C08 — byte encodings are positional, round-trip, and range-check without
//! panicking.  `B`/`L` = BITS/LIMBS, `NB` = BYTES, `NX` = decoder input cap.

use crate::nd::Nd;
use crate::refm;
use ruint::Uint;

/// fixed-size arrays and the borrowed slice
pub fn enc_fixed<const B: usize, const L: usize, const NB: usize>(nd: &mut Nd) {
    let v: Uint<B, L> = nd.uint();
    let i = nd.upto(NB); // one symbolic position covers all positions
    let lim = *v.as_limbs();
    let le = v.to_le_bytes::<NB>();
    let be = v.to_be_bytes::<NB>();
    let sl = v.as_le_slice();
    chk!(nd, "C08.as_le_slice.len", sl.len() == NB);
    if i < NB {
        chk!(nd, "C08.to_le_bytes.digit", le[i] == refm::byte(&lim, i));
        chk!(nd, "C08.to_be_bytes.digit", be[i] == refm::byte(&lim, NB - 1 - i));
        chk!(nd, "C08.as_le_slice.digit", sl[i] == refm::byte(&lim, i));
    }
    // decoding the encoding returns the value
    let r1 = Uint::<B, L>::from_le_bytes::<NB>(le);
    let r2 = Uint::<B, L>::from_be_bytes::<NB>(be);
    let r3 = Uint::<B, L>::try_from_le_slice(&le);
    let r4 = Uint::<B, L>::try_from_be_slice(&be);
    chk!(nd, "C08.from_le_bytes.roundtrip", refm::eq(r1.as_limbs(), &lim));
    chk!(nd, "C08.from_be_bytes.roundtrip", refm::eq(r2.as_limbs(), &lim));
    chk!(nd, "C08.try_from_le_slice.roundtrip", matches!(r3, Some(x) if refm::eq(x.as_limbs(), &lim)));
    chk!(nd, "C08.try_from_be_slice.roundtrip", matches!(r4, Some(x) if refm::eq(x.as_limbs(), &lim)));
}

/// vectors, Cow forms, zero-trimmed forms; `W` selects the form (one per
/// harness: heap-backed vectors are expensive for CBMC)
pub fn enc_vec<const B: usize, const L: usize, const NB: usize, const W: usize>(nd: &mut Nd) {
    let v: Uint<B, L> = nd.uint();
    let i = nd.upto(NB);
    let lim = *v.as_limbs();
    let n = refm::byte_len(&lim);
    match W {
        0 => {
            let x = v.to_le_bytes_vec();
            chk!(nd, "C08.to_le_bytes_vec.len", x.len() == NB);
            if i < NB && x.len() == NB {
                chk!(nd, "C08.to_le_bytes_vec.digit", x[i] == refm::byte(&lim, i));
            }
        }
        1 => {
            let x = v.to_be_bytes_vec();
            chk!(nd, "C08.to_be_bytes_vec.len", x.len() == NB);
            if i < NB && x.len() == NB {
                chk!(nd, "C08.to_be_bytes_vec.digit", x[i] == refm::byte(&lim, NB - 1 - i));
            }
        }
        2 => {
            let x = v.as_le_bytes();
            chk!(nd, "C08.as_le_bytes.len", x.len() == NB);
            if i < NB && x.len() == NB {
                chk!(nd, "C08.as_le_bytes.digit", x[i] == refm::byte(&lim, i));
            }
        }
        3 => {
            let x = v.to_le_bytes_trimmed_vec();
            chk!(nd, "C08.to_le_bytes_trimmed_vec.len", x.len() == n);
            if i < n && x.len() == n {
                chk!(nd, "C08.to_le_bytes_trimmed_vec.digit", x[i] == refm::byte(&lim, i));
            }
            let r = Uint::<B, L>::try_from_le_slice(&x);
            chk!(nd, "C08.trimmed_le.roundtrip", matches!(r, Some(y) if refm::eq(y.as_limbs(), &lim)));
        }
        4 => {
            let x = v.to_be_bytes_trimmed_vec();
            chk!(nd, "C08.to_be_bytes_trimmed_vec.len", x.len() == n);
            if i < n && x.len() == n {
                chk!(nd, "C08.to_be_bytes_trimmed_vec.digit", x[i] == refm::byte(&lim, n - 1 - i));
            }
            // (round trip follows from the digit check plus `dec`; decoding a
            // reversed heap vector of symbolic length costs > 100 s at 120 bits)
        }
        _ => {
            let x = v.as_le_bytes_trimmed();
            chk!(nd, "C08.as_le_bytes_trimmed.len", x.len() == n);
            if i < n && x.len() == n {
                chk!(nd, "C08.as_le_bytes_trimmed.digit", x[i] == refm::byte(&lim, i));
            }
        }
    }
}

/// copy-into-buffer forms; buffer length symbolic in 0..=NX (NX = NB + 2)
pub fn copy_to<const B: usize, const L: usize, const NB: usize, const NX: usize>(nd: &mut Nd) {
    let v: Uint<B, L> = nd.uint();
    let old: [u8; NX] = nd.bytes();
    let len = nd.upto(NX);
    let j = nd.upto(NX);
    let be = nd.bool();
    let lim = *v.as_limbs();
    let mut buf = old;
    let r = if be {
        v.checked_copy_be_bytes_to(&mut buf[..len])
    } else {
        v.checked_copy_le_bytes_to(&mut buf[..len])
    };
    if len < NB {
        chk!(nd, "C08.checked_copy.short_is_none", r.is_none());
        if j < NX {
            chk!(nd, "C08.checked_copy.short_untouched", buf[j] == old[j]);
        }
    } else {
        chk!(nd, "C08.checked_copy.some_bytes", r == Some(NB));
        if j < NB {
            let want = if be { refm::byte(&lim, NB - 1 - j) } else { refm::byte(&lim, j) };
            chk!(nd, "C08.checked_copy.digit", buf[j] == want);
        } else if j < NX {
            chk!(nd, "C08.checked_copy.frame", buf[j] == old[j]);
        }
        // the unchecked forms agree when the buffer is long enough
        let mut buf2 = old;
        let n2 = if be {
            v.copy_be_bytes_to(&mut buf2[..len])
        } else {
            v.copy_le_bytes_to(&mut buf2[..len])
        };
        chk!(nd, "C08.copy.returns_bytes", n2 == NB);
        if j < NX {
            chk!(nd, "C08.copy.same_as_checked", buf2[j] == buf[j]);
        }
    }
}

/// the unchecked copy forms panic on a too-short buffer (never return)
pub fn copy_to_short_panics<const B: usize, const L: usize, const NB: usize>(nd: &mut Nd) {
    let v: Uint<B, L> = nd.uint();
    let len = nd.upto(NB);
    nd.assume(len < NB);
    let be = nd.bool();
    let mut buf = [0u8; NB];
    cov!(nd, "before-call", true);
    let _ = if be {
        v.copy_be_bytes_to(&mut buf[..len])
    } else {
        v.copy_le_bytes_to(&mut buf[..len])
    };
    cov!(nd, "returned", true);
}

/// oracle for the decoders: Some(v) iff len <= NB and no bit at position >= B
#[inline(always)]
fn dec_expect<const L: usize, const NX: usize>(
    bits: usize,
    nb: usize,
    b: &[u8; NX],
    len: usize,
    be: bool,
) -> Option<[u64; L]> {
    if len > nb {
        return None;
    }
    let mut lim = [0u64; L];
    // place byte p (little-endian position) without a data-dependent loop bound
    let mut p = 0;
    while p < nb {
        if p < len {
            let byte = if be { b[len - 1 - p] } else { b[p] };
            lim[p / 8] |= (byte as u64) << (8 * (p % 8));
        }
        p += 1;
    }
    if L > 0 && lim[L - 1] & !refm::mask(bits) != 0 {
        return None;
    }
    Some(lim)
}

/// try_from_{be,le}_slice on an arbitrary byte string of length 0..=NX
pub fn dec<const B: usize, const L: usize, const NB: usize, const NX: usize>(nd: &mut Nd) {
    let b: [u8; NX] = nd.bytes();
    let len = nd.upto(NX);
    let be = nd.bool();
    let k = nd.upto(L);
    let want = dec_expect::<L, NX>(B, NB, &b, len, be);
    let got = if be {
        Uint::<B, L>::try_from_be_slice(&b[..len])
    } else {
        Uint::<B, L>::try_from_le_slice(&b[..len])
    };
    cov!(nd, "accepts-some", got.is_some());
    cov!(nd, "rejects-full-length", got.is_none() && len == NB);
    match (want, got) {
        (None, None) => {}
        (Some(w), Some(g)) => {
            if k < L {
                chk!(nd, "C08.try_from_slice.value", g.as_limbs()[k] == w[k]);
            }
        }
        (None, Some(_)) => {
            chk!(nd, "C08.try_from_slice.accepts_out_of_range", false);
        }
        (Some(_), None) => {
            chk!(nd, "C08.try_from_slice.rejects_in_range", false);
        }
    }
}

/// from_{be,le}_slice return exactly when try_ returns Some (in-range half)
pub fn dec_panicking_ok<const B: usize, const L: usize, const NB: usize, const NX: usize>(nd: &mut Nd) {
    let b: [u8; NX] = nd.bytes();
    let len = nd.upto(NX);
    let be = nd.bool();
    let k = nd.upto(L);
    let want = dec_expect::<L, NX>(B, NB, &b, len, be);
    nd.assume(want.is_some());
    let got = if be {
        Uint::<B, L>::from_be_slice(&b[..len])
    } else {
        Uint::<B, L>::from_le_slice(&b[..len])
    };
    if let Some(w) = want {
        if k < L {
            chk!(nd, "C08.from_slice.value", got.as_limbs()[k] == w[k]);
        }
    }
}

/// from_{be,le}_slice panic on out-of-range input (never return)
pub fn dec_panicking_bad<const B: usize, const L: usize, const NB: usize, const NX: usize>(nd: &mut Nd) {
    let b: [u8; NX] = nd.bytes();
    let len = nd.upto(NX);
    let be = nd.bool();
    let want = dec_expect::<L, NX>(B, NB, &b, len, be);
    nd.assume(want.is_none());
    cov!(nd, "before-call", true);
    let _ = if be {
        Uint::<B, L>::from_be_slice(&b[..len])
    } else {
        Uint::<B, L>::from_le_slice(&b[..len])
    };
    cov!(nd, "returned", true);
}

/// wrong const BYTES argument panics (never returns); NW != NB
pub fn wrong_bytes_panics<const B: usize, const L: usize, const NW: usize>(nd: &mut Nd) {
    let v: Uint<B, L> = nd.uint();
    let which = nd.u8();
    nd.assume(which < 4);
    cov!(nd, "before-call", true);
    match which {
        0 => {
            let _ = v.to_le_bytes::<NW>();
        }
        1 => {
            let _ = v.to_be_bytes::<NW>();
        }
        2 => {
            let _ = Uint::<B, L>::from_le_bytes::<NW>([0u8; NW]);
        }
        _ => {
            let _ = Uint::<B, L>::from_be_bytes::<NW>([0u8; NW]);
        }
    }
    cov!(nd, "returned", true);
}
