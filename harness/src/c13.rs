//! C13 — powers, integer logarithms and integer roots.  Decided here: pow at
//! narrow widths (all base/exponent pairs) and the log/root paths that do not
//! go through floating point.  The float-seeded correction loops (log with
//! base >= 3 above the base, root with 2 <= degree < BITS) are outside reach.

use crate::nd::Nd;
use crate::refm;
use ruint::Uint;

/// pow family at a narrow single-limb width: every (base, exponent)
pub fn pow_narrow<const B: usize, const W: usize>(nd: &mut Nd) {
    let m: u64 = if B == 0 { 0 } else { (1u64 << B) - 1 };
    let a = (nd.u8() as u64) & m;
    let e = (nd.u8() as u64) & m;
    // reference: square-and-multiply on exact values saturated at CAP (> 2^B), and mod 2^B
    const CAP: u64 = 1 << 20;
    let mut exact: u64 = 1; // min(a^e, CAP)
    let mut sq: u64 = a; // min(a^(2^i), CAP)
    let mut wr: u64 = 1 & m.max(if B == 0 { 0 } else { 1 }); // a^e mod 2^B
    let mut wsq: u64 = a;
    let mut i = 0;
    while i < B {
        if (e >> i) & 1 == 1 {
            exact = (exact * sq).min(CAP);
            wr = (wr * wsq) & m;
        }
        sq = (sq * sq).min(CAP);
        wsq = (wsq * wsq) & m;
        i += 1;
    }
    let over = B > 0 && exact > m;
    let want = if B == 0 { 0 } else { wr };
    let ua = Uint::<B, 1>::from_limbs([a]);
    let ue = Uint::<B, 1>::from_limbs([e]);
    cov!(nd, "overflows", over);
    cov!(nd, "zero-to-zero", a == 0 && e == 0);
    // one entry point per harness (each runs the square-and-multiply loop over the generic multiplier)
    match W {
        0 => {
            let (r, o) = ua.overflowing_pow(ue);
            chk!(nd, "C13.overflowing_pow.value", r.as_limbs()[0] == want);
            chk!(nd, "C13.overflowing_pow.flag", o == over);
        }
        1 => {
            chk!(nd, "C13.pow.value", ua.pow(ue).as_limbs()[0] == want);
        }
        2 => {
            chk!(nd, "C13.wrapping_pow.value", ua.wrapping_pow(ue).as_limbs()[0] == want);
        }
        3 => {
            chk!(nd, "C13.checked_pow", ua.checked_pow(ue).map(|v| v.as_limbs()[0]) == if over { None } else { Some(want) });
        }
        _ => {
            chk!(nd, "C13.saturating_pow", ua.saturating_pow(ue).as_limbs()[0] == if over { m } else { want });
        }
    }
}

/// checked_log / checked_log2 / checked_log10 on every input whose answer
/// needs no floating point: value 0 or base < 2 (None), base = 2, value < base
pub fn log_nofloat<const B: usize, const L: usize>(nd: &mut Nd) {
    let v: Uint<B, L> = nd.uint();
    let b: Uint<B, L> = nd.uint();
    let lv = *v.as_limbs();
    let lb = *b.as_limbs();
    let vz = refm::is_zero(&lv);
    let blen = refm::bit_len(&lb);
    let base_lt2 = blen < 2;
    let base_is2 = blen == 2 && !refm::bit(&lb, 0);
    let v_lt_b = refm::lt(&lv, &lb);
    nd.assume(vz || base_lt2 || base_is2 || v_lt_b);
    let n = refm::bit_len(&lv);
    let want = if vz || base_lt2 {
        None
    } else if base_is2 {
        Some(n - 1)
    } else {
        Some(0)
    };
    cov!(nd, "none", want.is_none());
    chk!(nd, "C13.checked_log", v.checked_log(b) == want);
    if let Some(w) = want {
        chk!(nd, "C13.log", v.log(b) == w);
    }
}

/// log2 / checked_log2 at every width incl. those where 2 does not fit
pub fn log2_fixed<const B: usize, const L: usize>(nd: &mut Nd) {
    let v: Uint<B, L> = nd.uint();
    let lv = *v.as_limbs();
    let vz = refm::is_zero(&lv);
    let n = refm::bit_len(&lv);
    chk!(nd, "C13.checked_log2", v.checked_log2() == if vz { None } else { Some(n - 1) });
    if !vz {
        chk!(nd, "C13.log2", v.log2() == n - 1);
    }
}

/// log10 / checked_log10 at widths below 4 bits (10 does not fit; every non-zero value is below it)
pub fn log10_tiny<const B: usize, const L: usize>(nd: &mut Nd) {
    let v: Uint<B, L> = nd.uint();
    let vz = refm::is_zero(v.as_limbs());
    chk!(nd, "C13.checked_log10.tiny", v.checked_log10() == if vz { None } else { Some(0) });
    if !vz {
        chk!(nd, "C13.log10.tiny", v.log10() == 0);
    }
}

/// log2(0) / log10(0) panic (never return)
pub fn log_fixed_zero_panics<const B: usize, const L: usize>(nd: &mut Nd) {
    let v = Uint::<B, L>::ZERO;
    let which = nd.bool();
    cov!(nd, "before-call", true);
    if which || B >= 4 {
        let _ = v.log2();
    } else {
        let _ = v.log10();
    }
    cov!(nd, "returned", true);
}

/// log panics for value 0 or base < 2 (never returns)
pub fn log_panics<const B: usize, const L: usize>(nd: &mut Nd) {
    let v: Uint<B, L> = nd.uint();
    let b: Uint<B, L> = nd.uint();
    nd.assume(refm::is_zero(v.as_limbs()) || refm::bit_len(b.as_limbs()) < 2);
    cov!(nd, "before-call", true);
    let _ = v.log(b);
    cov!(nd, "returned", true);
}

/// root on the inputs that need no floating point: value 0, degree >= BITS, degree 1
pub fn root_nofloat<const B: usize, const L: usize>(nd: &mut Nd) {
    let v: Uint<B, L> = nd.uint();
    let d = nd.usize();
    let vz = refm::is_zero(v.as_limbs());
    nd.assume(d >= 1 && (vz || d >= B || d == 1));
    let r = v.root(d);
    let mut one = [0u64; L];
    if L > 0 {
        one[0] = 1;
    }
    if vz {
        chk!(nd, "C13.root.zero", refm::is_zero(r.as_limbs()));
    } else if d >= B {
        chk!(nd, "C13.root.high_degree", refm::eq(r.as_limbs(), &one));
    } else {
        chk!(nd, "C13.root.degree_one", refm::eq(r.as_limbs(), v.as_limbs()));
    }
}

/// root(0 degree) panics (never returns)
pub fn root_degree_zero_panics<const B: usize, const L: usize>(nd: &mut Nd) {
    let v: Uint<B, L> = nd.uint();
    cov!(nd, "before-call", true);
    let _ = v.root(0);
    cov!(nd, "returned", true);
}

/// generic-base log / checked_log (and log10) on every (value, base) of a narrow width.  Compositional: the
/// multipliers are replaced by their specification, exp2/log2 by exact models on the integer arguments that occur.
pub fn log_narrow<const B: usize, const W: usize>(nd: &mut Nd) {
    let m: u64 = (1u64 << B) - 1;
    let v = (nd.u8() as u64) & m;
    let b = if W == 2 { 10 } else { (nd.u8() as u64) & m };
    // floor(log_b(v)) by repeated multiplication (v >= 1, b >= 2)
    // (unrolled by macro: a loop would raise the harness-wide unwinding bound, which is also the recursion bound of the
    //  TryFrom<f64> call inside `log` - 2^bound copies of its body)
    let mut want = 0usize;
    let mut p = b;
    macro_rules! step {
        () => {
            if b >= 2 && p <= v {
                want += 1;
                p *= b; // <= 2^16
            }
        };
    }
    step!();
    step!();
    step!();
    step!();
    step!();
    step!();
    step!();
    step!();
    let uv = Uint::<B, 1>::from_limbs([v]);
    cov!(nd, "at-max", v == m && b >= 3);
    cov!(nd, "exact-power", b >= 3 && want >= 2 && p == v * b);
    match W {
        0 => {
            let ub = Uint::<B, 1>::from_limbs([b]);
            chk!(nd, "C13.checked_log", uv.checked_log(ub) == if v == 0 || b < 2 { None } else { Some(want) });
        }
        1 => {
            nd.assume(v != 0 && b >= 2);
            let ub = Uint::<B, 1>::from_limbs([b]);
            chk!(nd, "C13.log", uv.log(ub) == want);
        }
        _ => {
            chk!(nd, "C13.checked_log10", uv.checked_log10() == if v == 0 { None } else { Some(want) });
            if v != 0 {
                chk!(nd, "C13.log10", uv.log10() == want);
            }
        }
    }
}
