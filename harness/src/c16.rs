//! C16 — every codec integration round-trips and emits its format's
//! reference encoding.  FULL values; the reference encoders are restated here
//! from the format definitions; one symbolic byte position covers all bytes.

use crate::nd::Nd;
use crate::refm;
use ruint::Uint;

/// minimal big-endian RLP string of the value: (bytes, len)
#[inline(always)]
fn rlp_ref<const L: usize, const NO: usize>(lim: &[u64; L]) -> ([u8; NO], usize) {
    let n = refm::byte_len(lim);
    let mut out = [0u8; NO];
    if n == 0 {
        out[0] = 0x80;
        return (out, 1);
    }
    if n == 1 && refm::byte(lim, 0) < 0x80 {
        out[0] = refm::byte(lim, 0);
        return (out, 1);
    }
    // n <= 55 at the widths instantiated here
    out[0] = 0x80 + n as u8;
    let mut i = 0;
    while i < NO - 1 {
        if i < n {
            out[1 + i] = refm::byte(lim, n - 1 - i);
        }
        i += 1;
    }
    (out, 1 + n)
}

macro_rules! rlp_enc {
    ($name:ident, $krate:ident, $a:literal, $b:literal, $c:literal, $d:literal) => {
        pub fn $name<const B: usize, const L: usize, const NO: usize>(nd: &mut Nd) {
            use $krate::{Decodable, Encodable};
            let v: Uint<B, L> = nd.uint();
            let k = nd.upto(NO);
            let (want, wn) = rlp_ref::<L, NO>(v.as_limbs());
            let mut out = Vec::new();
            v.encode(&mut out);
            chk!(nd, $a, out.len() == wn);
            chk!(nd, $b, v.length() == wn);
            if k < wn && k < out.len() {
                chk!(nd, $c, out[k] == want[k]);
            }
            let mut view: &[u8] = &out;
            let back = <Uint<B, L> as Decodable>::decode(&mut view);
            chk!(nd, $d, matches!(back, Ok(x) if refm::eq(x.as_limbs(), v.as_limbs())) && view.is_empty());
            core::mem::forget(out);
        }
    };
}
rlp_enc!(alloy_rlp, alloy_rlp, "C16.alloy_rlp.len", "C16.alloy_rlp.length_fn", "C16.alloy_rlp.byte", "C16.alloy_rlp.roundtrip");
rlp_enc!(fastrlp_03, fastrlp_03, "C16.fastrlp_03.len", "C16.fastrlp_03.length_fn", "C16.fastrlp_03.byte", "C16.fastrlp_03.roundtrip");
rlp_enc!(fastrlp_04, fastrlp_04, "C16.fastrlp_04.len", "C16.fastrlp_04.length_fn", "C16.fastrlp_04.byte", "C16.fastrlp_04.roundtrip");

pub fn rlp<const B: usize, const L: usize, const NO: usize>(nd: &mut Nd) {
    let v: Uint<B, L> = nd.uint();
    let k = nd.upto(NO);
    let (want, wn) = rlp_ref::<L, NO>(v.as_limbs());
    let out = rlp::encode(&v);
    chk!(nd, "C16.rlp.len", out.len() == wn);
    if k < wn && k < out.len() {
        chk!(nd, "C16.rlp.byte", out[k] == want[k]);
    }
    let back = rlp::decode::<Uint<B, L>>(&out);
    chk!(nd, "C16.rlp.roundtrip", matches!(back, Ok(x) if refm::eq(x.as_limbs(), v.as_limbs())));
    core::mem::forget(out);
}

/// SSZ and borsh: fixed-width little-endian, BYTES long
pub fn ssz_borsh<const B: usize, const L: usize, const NB: usize>(nd: &mut Nd) {
    use borsh::BorshDeserialize;
    use ssz::{Decode, Encode};
    let v: Uint<B, L> = nd.uint();
    let k = nd.upto(NB);
    let s = v.as_ssz_bytes();
    chk!(nd, "C16.ssz.len", s.len() == NB && v.ssz_bytes_len() == NB && <Uint<B, L> as Encode>::ssz_fixed_len() == NB
        && <Uint<B, L> as Encode>::is_ssz_fixed_len() && <Uint<B, L> as Decode>::ssz_fixed_len() == NB);
    if k < NB && s.len() == NB {
        chk!(nd, "C16.ssz.byte", s[k] == refm::byte(v.as_limbs(), k));
    }
    let back = <Uint<B, L> as Decode>::from_ssz_bytes(&s);
    chk!(nd, "C16.ssz.roundtrip", matches!(back, Ok(x) if refm::eq(x.as_limbs(), v.as_limbs())));
    let mut b = Vec::new();
    let r = borsh::BorshSerialize::serialize(&v, &mut b);
    chk!(nd, "C16.borsh.ok", r.is_ok());
    chk!(nd, "C16.borsh.len", b.len() == NB);
    if k < NB && b.len() == NB {
        chk!(nd, "C16.borsh.byte", b[k] == refm::byte(v.as_limbs(), k));
    }
    let mut view: &[u8] = &b;
    let back = <Uint<B, L> as BorshDeserialize>::deserialize(&mut view);
    chk!(nd, "C16.borsh.roundtrip", matches!(back, Ok(x) if refm::eq(x.as_limbs(), v.as_limbs())));
    core::mem::forget(r);
    core::mem::forget(s);
    core::mem::forget(b);
}

/// SCALE fixed form: compact length prefix (BYTES < 64: one byte BYTES << 2) + LE bytes; hints are upper bounds
pub fn scale_fixed<const B: usize, const L: usize, const NB: usize>(nd: &mut Nd) {
    use parity_scale_codec::{Decode, Encode, MaxEncodedLen};
    let v: Uint<B, L> = nd.uint();
    let k = nd.upto(NB);
    let out = v.encode();
    chk!(nd, "C16.scale.len", out.len() == NB + 1);
    if out.len() == NB + 1 {
        chk!(nd, "C16.scale.prefix", out[0] == (NB as u8) << 2);
        if k < NB {
            chk!(nd, "C16.scale.byte", out[1 + k] == refm::byte(v.as_limbs(), k));
        }
    }
    chk!(nd, "C16.scale.size_hint", Encode::size_hint(&v) >= out.len());
    chk!(nd, "C16.scale.max_encoded_len", <Uint<B, L> as MaxEncodedLen>::max_encoded_len() >= out.len());
    let mut view: &[u8] = &out;
    let back = <Uint<B, L> as Decode>::decode(&mut view);
    chk!(nd, "C16.scale.roundtrip", matches!(back, Ok(x) if refm::eq(x.as_limbs(), v.as_limbs())));
    core::mem::forget(out);
}

/// SCALE compact form: four modes; size hint is an upper bound and computing it does not panic
pub fn scale_compact<const B: usize, const L: usize, const NO: usize>(nd: &mut Nd) {
    use parity_scale_codec::Encode;
    use ruint::support::scale::CompactRefUint;
    let v: Uint<B, L> = nd.uint();
    let k = nd.upto(NO);
    let lim = *v.as_limbs();
    let bits = refm::bit_len(&lim);
    let n = refm::byte_len(&lim);
    let c = CompactRefUint(&v);
    let hint = c.size_hint();
    let out = c.encode();
    // reference
    let lo: u64 = if L > 0 { lim[0] } else { 0 };
    let mut want = [0u8; NO];
    let wn = if bits <= 6 {
        want[0] = (lo as u8) << 2;
        1
    } else if bits <= 14 {
        let x = ((lo as u16) << 2) | 1;
        want[0] = x as u8;
        want[1] = (x >> 8) as u8;
        2
    } else if bits <= 30 {
        let x = ((lo as u32) << 2) | 2;
        want[0] = x as u8;
        want[1] = (x >> 8) as u8;
        want[2] = (x >> 16) as u8;
        want[3] = (x >> 24) as u8;
        4
    } else {
        want[0] = 3 + (((n - 4) as u8) << 2);
        let mut i = 0;
        while i < NO - 1 {
            if i < n {
                want[1 + i] = refm::byte(&lim, i);
            }
            i += 1;
        }
        1 + n
    };
    cov!(nd, "big-integer-mode", bits > 30);
    chk!(nd, "C16.compact.len", out.len() == wn);
    if k < wn && k < out.len() {
        chk!(nd, "C16.compact.byte", out[k] == want[k]);
    }
    chk!(nd, "C16.compact.size_hint", hint >= out.len());
    core::mem::forget(out);
}

/// compact size_hint alone on a wide type (the hint is computed from leading_zeros)
pub fn scale_compact_hint<const B: usize, const L: usize>(nd: &mut Nd) {
    use parity_scale_codec::Encode;
    use ruint::support::scale::CompactRefUint;
    let v: Uint<B, L> = nd.uint();
    let n = refm::byte_len(v.as_limbs());
    let hint = CompactRefUint(&v).size_hint();
    chk!(nd, "C16.compact.size_hint_wide", hint >= 1 && (refm::bit_len(v.as_limbs()) <= 30 || hint >= 1 + n));
}

/// DER: canonical INTEGER
pub fn der<const B: usize, const L: usize, const NO: usize>(nd: &mut Nd) {
    use der::{Encode, EncodeValue};
    let v: Uint<B, L> = nd.uint();
    let k = nd.upto(NO);
    let lim = *v.as_limbs();
    let n = refm::byte_len(&lim);
    // contents: minimal big-endian, 00 prefix if the top bit is set or the value is zero
    let pad = n == 0 || refm::byte(&lim, n - 1) >= 0x80;
    let cl = n + pad as usize;
    let mut want = [0u8; NO];
    want[0] = 0x02;
    want[1] = cl as u8; // < 128 at the widths instantiated
    let mut i = 0;
    while i < NO - 2 {
        if i < cl {
            let j = if pad { i.wrapping_sub(1) } else { i };
            want[2 + i] = if pad && i == 0 { 0 } else { refm::byte(&lim, n - 1 - j) };
        }
        i += 1;
    }
    let mut buf = [0u8; NO];
    match v.encode_to_slice(&mut buf) {
        Ok(enc) => {
            chk!(nd, "C16.der.len", enc.len() == 2 + cl);
            if k < 2 + cl && k < enc.len() {
                chk!(nd, "C16.der.byte", enc[k] == want[k]);
            }
        }
        Err(e) => {
            chk!(nd, "C16.der.encode_failed", false);
            core::mem::forget(e);
        }
    }
    match v.value_len() {
        Ok(l) => chk!(nd, "C16.der.value_len", u32::from(l) as usize == cl),
        Err(e) => {
            chk!(nd, "C16.der.value_len_failed", false);
            core::mem::forget(e);
        }
    }
}
