//! C16 — every codec integration round-trips and emits its format's
//! reference encoding.  FULL values; the reference encoders are restated here
//! from the format definitions; one symbolic byte position covers all bytes.

use crate::nd::Nd;
use crate::refm;
use ruint::Uint;

/// minimal big-endian RLP string of the value: (bytes, len)
#[inline(always)]
fn rlp_ref<const L: usize, const NO: usize>(lim: &[u64; L]) -> ([u8; NO], usize) {
    let n = refm::byte_len(lim);
    let mut out = [0u8; NO];
    if n == 0 {
        out[0] = 0x80;
        return (out, 1);
    }
    if n == 1 && refm::byte(lim, 0) < 0x80 {
        out[0] = refm::byte(lim, 0);
        return (out, 1);
    }
    // short string (payload <= 55 bytes): 0x80 + n; long string (56..=255 bytes): 0xb8, n
    let h = if n <= 55 { 1 } else { 2 };
    if n <= 55 {
        out[0] = 0x80 + n as u8;
    } else {
        out[0] = 0xb8;
        out[1] = n as u8;
    }
    let mut i = 0;
    while i < NO - 1 {
        if i < n && h + i < NO {
            out[h + i] = refm::byte(lim, n - 1 - i);
        }
        i += 1;
    }
    (out, h + n)
}

macro_rules! rlp_enc {
    ($name:ident, $krate:ident, $a:literal, $b:literal, $c:literal, $d:literal) => {
        pub fn $name<const B: usize, const L: usize, const NO: usize>(nd: &mut Nd) {
            use $krate::{Decodable, Encodable};
            let v: Uint<B, L> = nd.uint();
            let k = nd.upto(NO);
            let (want, wn) = rlp_ref::<L, NO>(v.as_limbs());
            let mut out = Vec::new();
            v.encode(&mut out);
            chk!(nd, $a, out.len() == wn);
            chk!(nd, $b, v.length() == wn);
            if k < wn && k < out.len() {
                chk!(nd, $c, out[k] == want[k]);
            }
            let mut view: &[u8] = &out;
            let back = <Uint<B, L> as Decodable>::decode(&mut view);
            chk!(nd, $d, matches!(back, Ok(x) if refm::eq(x.as_limbs(), v.as_limbs())) && view.is_empty());
            core::mem::forget(out);
        }
    };
}
rlp_enc!(alloy_rlp, alloy_rlp, "C16.alloy_rlp.len", "C16.alloy_rlp.length_fn", "C16.alloy_rlp.byte", "C16.alloy_rlp.roundtrip");
rlp_enc!(fastrlp_03, fastrlp_03, "C16.fastrlp_03.len", "C16.fastrlp_03.length_fn", "C16.fastrlp_03.byte", "C16.fastrlp_03.roundtrip");
rlp_enc!(fastrlp_04, fastrlp_04, "C16.fastrlp_04.len", "C16.fastrlp_04.length_fn", "C16.fastrlp_04.byte", "C16.fastrlp_04.roundtrip");

pub fn rlp<const B: usize, const L: usize, const NO: usize>(nd: &mut Nd) {
    let v: Uint<B, L> = nd.uint();
    let k = nd.upto(NO);
    let (want, wn) = rlp_ref::<L, NO>(v.as_limbs());
    let out = rlp::encode(&v);
    chk!(nd, "C16.rlp.len", out.len() == wn);
    if k < wn && k < out.len() {
        chk!(nd, "C16.rlp.byte", out[k] == want[k]);
    }
    let back = rlp::decode::<Uint<B, L>>(&out);
    chk!(nd, "C16.rlp.roundtrip", matches!(back, Ok(x) if refm::eq(x.as_limbs(), v.as_limbs())));
    core::mem::forget(out);
}

/// SSZ and borsh: fixed-width little-endian, BYTES long
pub fn ssz_borsh<const B: usize, const L: usize, const NB: usize>(nd: &mut Nd) {
    use borsh::BorshDeserialize;
    use ssz::{Decode, Encode};
    let v: Uint<B, L> = nd.uint();
    let k = nd.upto(NB);
    let s = v.as_ssz_bytes();
    chk!(nd, "C16.ssz.len", s.len() == NB && v.ssz_bytes_len() == NB && <Uint<B, L> as Encode>::ssz_fixed_len() == NB
        && <Uint<B, L> as Encode>::is_ssz_fixed_len() && <Uint<B, L> as Decode>::ssz_fixed_len() == NB);
    if k < NB && s.len() == NB {
        chk!(nd, "C16.ssz.byte", s[k] == refm::byte(v.as_limbs(), k));
    }
    let back = <Uint<B, L> as Decode>::from_ssz_bytes(&s);
    chk!(nd, "C16.ssz.roundtrip", matches!(back, Ok(x) if refm::eq(x.as_limbs(), v.as_limbs())));
    let mut b = Vec::new();
    let r = borsh::BorshSerialize::serialize(&v, &mut b);
    chk!(nd, "C16.borsh.ok", r.is_ok());
    chk!(nd, "C16.borsh.len", b.len() == NB);
    if k < NB && b.len() == NB {
        chk!(nd, "C16.borsh.byte", b[k] == refm::byte(v.as_limbs(), k));
    }
    let mut view: &[u8] = &b;
    let back = <Uint<B, L> as BorshDeserialize>::deserialize(&mut view);
    chk!(nd, "C16.borsh.roundtrip", matches!(back, Ok(x) if refm::eq(x.as_limbs(), v.as_limbs())));
    core::mem::forget(r);
    core::mem::forget(s);
    core::mem::forget(b);
}

/// SCALE fixed form: compact length prefix (BYTES < 64: one byte BYTES << 2) + LE bytes; hints are upper bounds
pub fn scale_fixed<const B: usize, const L: usize, const NB: usize>(nd: &mut Nd) {
    use parity_scale_codec::{Decode, Encode, MaxEncodedLen};
    let v: Uint<B, L> = nd.uint();
    let k = nd.upto(NB);
    let out = v.encode();
    chk!(nd, "C16.scale.len", out.len() == NB + 1);
    if out.len() == NB + 1 {
        chk!(nd, "C16.scale.prefix", out[0] == (NB as u8) << 2);
        if k < NB {
            chk!(nd, "C16.scale.byte", out[1 + k] == refm::byte(v.as_limbs(), k));
        }
    }
    chk!(nd, "C16.scale.size_hint", Encode::size_hint(&v) >= out.len());
    chk!(nd, "C16.scale.max_encoded_len", <Uint<B, L> as MaxEncodedLen>::max_encoded_len() >= out.len());
    let mut view: &[u8] = &out;
    let back = <Uint<B, L> as Decode>::decode(&mut view);
    chk!(nd, "C16.scale.roundtrip", matches!(back, Ok(x) if refm::eq(x.as_limbs(), v.as_limbs())));
    core::mem::forget(out);
}

/// SCALE compact form: four modes; size hint is an upper bound and computing it does not panic
pub fn scale_compact<const B: usize, const L: usize, const NO: usize>(nd: &mut Nd) {
    use parity_scale_codec::Encode;
    use ruint::support::scale::CompactRefUint;
    let v: Uint<B, L> = nd.uint();
    let k = nd.upto(NO);
    let lim = *v.as_limbs();
    let bits = refm::bit_len(&lim);
    let n = refm::byte_len(&lim);
    let c = CompactRefUint(&v);
    let hint = c.size_hint();
    let out = c.encode();
    // reference
    let lo: u64 = if L > 0 { lim[0] } else { 0 };
    let mut want = [0u8; NO];
    let wn = if bits <= 6 {
        want[0] = (lo as u8) << 2;
        1
    } else if bits <= 14 {
        let x = ((lo as u16) << 2) | 1;
        want[0] = x as u8;
        want[1] = (x >> 8) as u8;
        2
    } else if bits <= 30 {
        let x = ((lo as u32) << 2) | 2;
        want[0] = x as u8;
        want[1] = (x >> 8) as u8;
        want[2] = (x >> 16) as u8;
        want[3] = (x >> 24) as u8;
        4
    } else {
        want[0] = 3 + (((n - 4) as u8) << 2);
        let mut i = 0;
        while i < NO - 1 {
            if i < n {
                want[1 + i] = refm::byte(&lim, i);
            }
            i += 1;
        }
        1 + n
    };
    cov!(nd, "big-integer-mode", bits > 30);
    chk!(nd, "C16.compact.len", out.len() == wn);
    if k < wn && k < out.len() {
        chk!(nd, "C16.compact.byte", out[k] == want[k]);
    }
    chk!(nd, "C16.compact.size_hint", hint >= out.len());
    core::mem::forget(out);
}

/// compact size_hint alone on a wide type (the hint is computed from leading_zeros)
pub fn scale_compact_hint<const B: usize, const L: usize>(nd: &mut Nd) {
    use parity_scale_codec::Encode;
    use ruint::support::scale::CompactRefUint;
    let v: Uint<B, L> = nd.uint();
    let n = refm::byte_len(v.as_limbs());
    let hint = CompactRefUint(&v).size_hint();
    chk!(nd, "C16.compact.size_hint_wide", hint >= 1 && (refm::bit_len(v.as_limbs()) <= 30 || hint >= 1 + n));
}

/// DER: canonical INTEGER
pub fn der<const B: usize, const L: usize, const NO: usize>(nd: &mut Nd) {
    use der::{Encode, EncodeValue};
    let v: Uint<B, L> = nd.uint();
    let k = nd.upto(NO);
    let lim = *v.as_limbs();
    let n = refm::byte_len(&lim);
    // contents: minimal big-endian, 00 prefix if the top bit is set or the value is zero
    let pad = n == 0 || refm::byte(&lim, n - 1) >= 0x80;
    let cl = n + pad as usize;
    let mut want = [0u8; NO];
    want[0] = 0x02;
    want[1] = cl as u8; // < 128 at the widths instantiated
    let mut i = 0;
    while i < NO - 2 {
        if i < cl {
            let j = if pad { i.wrapping_sub(1) } else { i };
            want[2 + i] = if pad && i == 0 { 0 } else { refm::byte(&lim, n - 1 - j) };
        }
        i += 1;
    }
    let mut buf = [0u8; NO];
    match v.encode_to_slice(&mut buf) {
        Ok(enc) => {
            chk!(nd, "C16.der.len", enc.len() == 2 + cl);
            if k < 2 + cl && k < enc.len() {
                chk!(nd, "C16.der.byte", enc[k] == want[k]);
            }
        }
        Err(e) => {
            chk!(nd, "C16.der.encode_failed", false);
            core::mem::forget(e);
        }
    }
    match v.value_len() {
        Ok(l) => chk!(nd, "C16.der.value_len", u32::from(l) as usize == cl),
        Err(e) => {
            chk!(nd, "C16.der.value_len_failed", false);
            core::mem::forget(e);
        }
    }
}

/// primitive-types: U128/U256/U512 and H128/H160/H256 conversions are exact and round-trip
pub fn primitive_types(nd: &mut Nd) {
    use primitive_types as pt;
    use ruint::aliases as ours;
    let a: ours::U128 = nd.uint();
    let b: ours::U256 = nd.uint();
    let k = nd.upto(31);
    let pa = pt::U128::from(a);
    chk!(nd, "C16.primitive_types.u128", pa.0 == *a.as_limbs() && <ours::U128 as From<pt::U128>>::from(pa) == a);
    let pb = pt::U256::from(b);
    chk!(nd, "C16.primitive_types.u256", pb.0 == *b.as_limbs() && <ours::U256 as From<pt::U256>>::from(pb) == b);
    // Bits <-> H256: big-endian bytes
    let bits = ours::B256::from(b);
    let h = pt::H256::from(bits);
    chk!(nd, "C16.primitive_types.h256.byte", h.0[k] == crate::refm::byte(b.as_limbs(), 31 - k));
    chk!(nd, "C16.primitive_types.h256.roundtrip", ours::B256::from(h) == bits);
    let bits = ours::B128::from(a);
    let h = pt::H128::from(bits);
    chk!(nd, "C16.primitive_types.h128", k >= 16 || h.0[k] == crate::refm::byte(a.as_limbs(), 15 - k));
    chk!(nd, "C16.primitive_types.h128.roundtrip", ours::B128::from(h) == bits);
}

/// bytemuck: the Pod view of an aligned Uint is its little-endian byte string; zeroed() is ZERO
pub fn bytemuck_pod(nd: &mut Nd) {
    let a: Uint<128, 2> = nd.uint();
    let k = nd.upto(15);
    let bytes: &[u8] = bytemuck::bytes_of(&a);
    chk!(nd, "C16.bytemuck.len", bytes.len() == 16);
    chk!(nd, "C16.bytemuck.byte", bytes[k] == crate::refm::byte(a.as_limbs(), k));
    let back: Uint<128, 2> = bytemuck::pod_read_unaligned(bytes);
    chk!(nd, "C16.bytemuck.roundtrip", back == a);
    let z: Uint<65, 2> = bytemuck::Zeroable::zeroed();
    chk!(nd, "C16.bytemuck.zeroed", z == Uint::<65, 2>::ZERO);
}

pub mod mini_ser {
    //! The smallest Serializer that can capture ruint's binary form.
    use serde::ser::{Impossible, Serializer};

    #[derive(Debug)]
    pub struct Er;
    impl core::fmt::Display for Er {
        fn fmt(&self, _: &mut core::fmt::Formatter<'_>) -> core::fmt::Result {
            Ok(())
        }
    }
    impl std::error::Error for Er {}
    impl serde::ser::Error for Er {
        fn custom<T: core::fmt::Display>(_msg: T) -> Self {
            Er
        }
    }

    /// captures `serialize_bytes` into a fixed buffer
    pub struct Cap<'a> {
        pub buf: &'a mut [u8],
        pub len: &'a mut usize,
    }

    macro_rules! nope {
        ($($f:ident($t:ty)),*) => {$(
            fn $f(self, _v: $t) -> Result<(), Er> { Err(Er) }
        )*};
    }

    impl<'a> Serializer for Cap<'a> {
        type Ok = ();
        type Error = Er;
        type SerializeSeq = Impossible<(), Er>;
        type SerializeTuple = Impossible<(), Er>;
        type SerializeTupleStruct = Impossible<(), Er>;
        type SerializeTupleVariant = Impossible<(), Er>;
        type SerializeMap = Impossible<(), Er>;
        type SerializeStruct = Impossible<(), Er>;
        type SerializeStructVariant = Impossible<(), Er>;
        fn is_human_readable(&self) -> bool {
            false
        }
        fn serialize_bytes(self, v: &[u8]) -> Result<(), Er> {
            if v.len() > self.buf.len() {
                return Err(Er);
            }
            let mut i = 0;
            while i < v.len() {
                self.buf[i] = v[i];
                i += 1;
            }
            *self.len = v.len();
            Ok(())
        }
        nope!(serialize_bool(bool), serialize_i8(i8), serialize_i16(i16), serialize_i32(i32), serialize_i64(i64),
            serialize_u8(u8), serialize_u16(u16), serialize_u32(u32), serialize_u64(u64), serialize_f32(f32),
            serialize_f64(f64), serialize_char(char), serialize_str(&str));
        fn serialize_none(self) -> Result<(), Er> {
            Err(Er)
        }
        fn serialize_some<T: ?Sized + serde::Serialize>(self, _: &T) -> Result<(), Er> {
            Err(Er)
        }
        fn serialize_unit(self) -> Result<(), Er> {
            Err(Er)
        }
        fn serialize_unit_struct(self, _: &'static str) -> Result<(), Er> {
            Err(Er)
        }
        fn serialize_unit_variant(self, _: &'static str, _: u32, _: &'static str) -> Result<(), Er> {
            Err(Er)
        }
        fn serialize_newtype_struct<T: ?Sized + serde::Serialize>(self, _: &'static str, _: &T) -> Result<(), Er> {
            Err(Er)
        }
        fn serialize_newtype_variant<T: ?Sized + serde::Serialize>(
            self,
            _: &'static str,
            _: u32,
            _: &'static str,
            _: &T,
        ) -> Result<(), Er> {
            Err(Er)
        }
        fn serialize_seq(self, _: Option<usize>) -> Result<Self::SerializeSeq, Er> {
            Err(Er)
        }
        fn serialize_tuple(self, _: usize) -> Result<Self::SerializeTuple, Er> {
            Err(Er)
        }
        fn serialize_tuple_struct(self, _: &'static str, _: usize) -> Result<Self::SerializeTupleStruct, Er> {
            Err(Er)
        }
        fn serialize_tuple_variant(
            self,
            _: &'static str,
            _: u32,
            _: &'static str,
            _: usize,
        ) -> Result<Self::SerializeTupleVariant, Er> {
            Err(Er)
        }
        fn serialize_map(self, _: Option<usize>) -> Result<Self::SerializeMap, Er> {
            Err(Er)
        }
        fn serialize_struct(self, _: &'static str, _: usize) -> Result<Self::SerializeStruct, Er> {
            Err(Er)
        }
        fn serialize_struct_variant(
            self,
            _: &'static str,
            _: u32,
            _: &'static str,
            _: usize,
        ) -> Result<Self::SerializeStructVariant, Er> {
            Err(Er)
        }
    }
}

/// serde binary form: BYTES big-endian bytes; the binary visitor decodes them back
pub fn serde_binary<const B: usize, const L: usize, const NB: usize, const NO: usize>(nd: &mut Nd) {
    use serde::{Deserialize, Serialize};
    let v: Uint<B, L> = nd.uint();
    let k = nd.upto(NB);
    let mut buf = [0u8; NO];
    let mut len = usize::MAX;
    let r = v.serialize(mini_ser::Cap { buf: &mut buf, len: &mut len });
    chk!(nd, "C16.serde_binary.ok", r.is_ok());
    chk!(nd, "C16.serde_binary.len", len == NB);
    if k < NB {
        chk!(nd, "C16.serde_binary.byte", buf[k] == refm::byte(v.as_limbs(), NB - 1 - k));
    }
    if len == NB {
        let back = Uint::<B, L>::deserialize(crate::c17::mini_serde::De { tok: crate::c17::mini_serde::Tok::Bytes(&buf[..NB]) });
        chk!(nd, "C16.serde_binary.roundtrip", matches!(back, Ok(x) if refm::eq(x.as_limbs(), v.as_limbs())));
    }
}

/// postgres: to_sql then from_sql returns the value for every binary column type whose encoding succeeds
pub fn pg_roundtrip<const B: usize, const L: usize, const T: usize>(nd: &mut Nd) {
    use bytes::BytesMut;
    use postgres_types::{FromSql, ToSql, Type};
    let v: Uint<B, L> = nd.uint();
    let t = match T {
        0 => Type::BOOL,
        1 => Type::INT2,
        2 => Type::INT4,
        3 => Type::INT8,
        4 => Type::OID,
        5 => Type::MONEY,
        6 => Type::BYTEA,
        7 => Type::BIT,
        8 => Type::VARBIT,
        _ => Type::NUMERIC,
    };
    let mut out = BytesMut::new();
    match v.to_sql(&t, &mut out) {
        Ok(_) => {
            cov!(nd, "encodes", true);
            let back = <Uint<B, L> as FromSql>::from_sql(&t, &out);
            match back {
                Ok(x) => chk!(nd, "C16.pg.roundtrip", refm::eq(x.as_limbs(), v.as_limbs())),
                Err(e) => {
                    chk!(nd, "C16.pg.decode_of_own_encoding_failed", false);
                    core::mem::forget(e);
                }
            }
        }
        Err(e) => core::mem::forget(e),
    }
    core::mem::forget(out);
    core::mem::forget(t);
}

/// postgres NUMERIC encoding against the wire-format definition (numeric.c `numeric_send`): i16 ndigits, i16 weight
/// (base-10000 exponent of the FIRST digit), i16 sign = 0, i16 dscale = 0, then the base-10000 digits, most
/// significant first, with trailing zero digits stripped (zero: no digits, weight 0).  Constructive oracle: the
/// harness draws ND base-10000 digits and builds the value from them, so no division appears on the oracle side.
/// RT != 0 additionally decodes the bytes back.
pub fn pg_numeric_enc<const B: usize, const ND: usize, const RT: usize>(nd: &mut Nd) {
    use bytes::BytesMut;
    use postgres_types::{FromSql, ToSql, Type};
    let mut d = [0u64; ND];
    let mut i = 0;
    while i < ND {
        d[i] = nd.u16() as u64;
        nd.assume(d[i] < 10000);
        i += 1;
    }
    let k = nd.upto(8 + 2 * ND);
    let mut val: u64 = 0;
    let mut i = ND;
    while i > 0 {
        i -= 1;
        val = val * 10000 + d[i];
    }
    nd.assume(val <= refm::mask(B));
    let v = Uint::<B, 1>::from_limbs([val]);
    // n = number of digits up to the most significant non-zero one, tz = number of trailing zero digits
    let mut n = 0usize;
    let mut tz = ND;
    let mut i = 0;
    while i < ND {
        if d[i] != 0 {
            n = i + 1;
            if tz == ND {
                tz = i;
            }
        }
        i += 1;
    }
    let (ndig, weight) = if n == 0 { (0usize, 0usize) } else { (n - tz, n - 1) };
    cov!(nd, "trailing-zero-digit", n > 0 && tz > 0);
    cov!(nd, "zero", n == 0);
    let mut want = [0u8; 32];
    want[0] = (ndig >> 8) as u8;
    want[1] = ndig as u8;
    want[2] = (weight >> 8) as u8;
    want[3] = weight as u8;
    let mut i = 0;
    while i < ND {
        // i-th emitted digit is d[n-1-i]
        if i < ndig {
            let dg = d[n - 1 - i];
            want[8 + 2 * i] = (dg >> 8) as u8;
            want[9 + 2 * i] = dg as u8;
        }
        i += 1;
    }
    let t = Type::NUMERIC;
    let mut out = BytesMut::new();
    match v.to_sql(&t, &mut out) {
        Ok(_) => {
            chk!(nd, "C16.pg.numeric.len", out.len() == 8 + 2 * ndig);
            if k < out.len() && k < 8 + 2 * ndig {
                chk!(nd, "C16.pg.numeric.byte", out[k] == want[k]);
            }
            if RT != 0 {
                match <Uint<B, 1> as FromSql>::from_sql(&t, &out) {
                    Ok(x) => chk!(nd, "C16.pg.numeric.roundtrip", x.as_limbs()[0] == val),
                    Err(e) => {
                        chk!(nd, "C16.pg.numeric.decode_of_own_encoding_failed", false);
                        core::mem::forget(e);
                    }
                }
            }
        }
        Err(e) => {
            chk!(nd, "C16.pg.numeric.encode_failed", false);
            core::mem::forget(e);
        }
    }
    core::mem::forget(out);
    core::mem::forget(t);
}
