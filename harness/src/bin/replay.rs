//! Native replayer: runs one harness body on a tape of draws against the
//! normally compiled /repo (no Kani, no stubs).  Usage:
//!   replay <harness> <tape.json>      tape = [[b0,b1,..],[..],..]
//! Prints one JSON object describing the outcome.
#[cfg(kani)]
fn main() {}

#[cfg(not(kani))]
fn main() {
    real::main()
}

#[cfg(not(kani))]
mod real {
use std::panic;
use std::sync::Mutex;

static PANIC_INFO: Mutex<Option<(String, String)>> = Mutex::new(None);

fn parse_tape(s: &str) -> Vec<Vec<u8>> {
    // minimal parser for [[1,2],[3]] (no dependency on serde_json)
    let mut out = Vec::new();
    let mut cur: Option<Vec<u8>> = None;
    let mut num: Option<u32> = None;
    let mut depth = 0;
    for ch in s.chars() {
        match ch {
            '[' => {
                depth += 1;
                if depth == 2 {
                    cur = Some(Vec::new());
                }
            }
            ']' => {
                if let (Some(n), Some(c)) = (num.take(), cur.as_mut()) {
                    c.push(n as u8);
                }
                if depth == 2 {
                    out.push(cur.take().unwrap());
                }
                depth -= 1;
            }
            ',' => {
                if let (Some(n), Some(c)) = (num.take(), cur.as_mut()) {
                    c.push(n as u8);
                }
            }
            d if d.is_ascii_digit() => {
                num = Some(num.unwrap_or(0) * 10 + d.to_digit(10).unwrap());
            }
            _ => {}
        }
    }
    out
}

fn esc(s: &str) -> String {
    let mut o = String::new();
    for c in s.chars() {
        match c {
            '"' => o.push_str("\\\""),
            '\\' => o.push_str("\\\\"),
            '\n' => o.push_str("\\n"),
            c if (c as u32) < 0x20 => o.push_str(&format!("\\u{:04x}", c as u32)),
            c => o.push(c),
        }
    }
    o
}

pub fn main() {
    let args: Vec<String> = std::env::args().collect();
    if args.len() != 3 {
        eprintln!("usage: replay <harness> <tape.json>");
        std::process::exit(64);
    }
    let name = &args[1];
    let tape = parse_tape(&std::fs::read_to_string(&args[2]).expect("tape file"));
    let Some(body) = uvh::gen::lookup(name) else {
        println!("{{\"status\":\"unknown-harness\",\"harness\":\"{}\"}}", esc(name));
        std::process::exit(65);
    };
    panic::set_hook(Box::new(|info| {
        let loc = info
            .location()
            .map(|l| format!("{}:{}", l.file(), l.line()))
            .unwrap_or_default();
        let msg = if let Some(s) = info.payload().downcast_ref::<&str>() {
            s.to_string()
        } else if let Some(s) = info.payload().downcast_ref::<String>() {
            s.clone()
        } else {
            String::new()
        };
        *PANIC_INFO.lock().unwrap() = Some((msg, loc));
    }));
    let mut nd = uvh::nd::Nd::from_tape(tape);
    let r = panic::catch_unwind(panic::AssertUnwindSafe(|| body(&mut nd)));
    let (status, pmsg, ploc) = match r {
        Ok(()) => (if nd.failures.is_empty() { "ok" } else { "check-failed" }, String::new(), String::new()),
        Err(e) => {
            if e.downcast_ref::<uvh::nd::Vacuous>().is_some() {
                ("vacuous", String::new(), String::new())
            } else {
                let (m, l) = PANIC_INFO.lock().unwrap().clone().unwrap_or_default();
                ("panic", m, l)
            }
        }
    };
    let fl: Vec<String> = nd.failures.iter().map(|s| format!("\"{}\"", esc(s))).collect();
    let cv: Vec<String> = nd.covers.iter().map(|s| format!("\"{}\"", esc(s))).collect();
    println!(
        "{{\"status\":\"{}\",\"failures\":[{}],\"covers\":[{}],\"checks\":{},\"panic_msg\":\"{}\",\"panic_loc\":\"{}\",\"draws\":{},\"underrun\":{},\"mismatch\":{}}}",
        status, fl.join(","), cv.join(","), nd.checks, esc(&pmsg), esc(&ploc), nd.pos, nd.underrun, nd.mismatch
    );
}
}
