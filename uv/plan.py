"""Harness plan: the single source of truth for which harness instances exist.

Each property module in uv/plans/ exposes `harnesses() -> list[H]`.  gen.py
turns the union into harness/src/gen.rs (Kani proofs + native registry);
run.py selects by property and tier and runs them.
"""
from dataclasses import dataclass, field
import importlib
import os

PROPS = ["C%02d" % i for i in range(1, 21)]


def nlimbs(bits):
    return (bits + 63) // 64


def nbytes(bits):
    return (bits + 7) // 8


@dataclass
class H:
    name: str                 # unique harness fn name
    prop: str                 # "C08"
    body: str                 # rust path with generics, e.g. "c08::dec::<60,1,8,11>"
    unwind: int
    tier: str = "quick"       # "quick" (also run in thorough) | "thorough"
    timeout: int = 300        # seconds for the CBMC run of this harness
    kind: str = "pass"        # "pass" | "never_returns"
    stubs: list = field(default_factory=list)   # [(orig, replacement)]
    fns: list = field(default_factory=list)     # entry points of /repo encoded
    inst: str = ""            # instantiation, e.g. "Uint<60,1>"
    domain: str = ""          # input domain in words
    free_bits: int = 0        # symbolic input bits (upper bound)
    role: str = ""            # for known-finding matching; default = body fn name
    covers_required: list = field(default_factory=list)  # cover labels that must be SATISFIED
    abstract: bool = False    # uses UF/stub over-approximation (non-reproducing cex => unconfirmed)
    solver: str = ""          # override
    memcmp: int = 72          # unwinding bound of CBMC's memcmp loop (Uint == is memcmp over 8*LIMBS bytes)
    extra_unwind: dict = field(default_factory=dict)  # further --unwindset entries {loop id: bound}

    def __post_init__(self):
        if not self.role:
            self.role = self.body.split("::<")[0]


_cache = None


def all_harnesses():
    global _cache
    if _cache is not None:
        return _cache
    out = []
    names = set()
    here = os.path.dirname(os.path.abspath(__file__))
    for p in PROPS:
        modname = p.lower()
        if not os.path.exists(os.path.join(here, "plans", modname + ".py")):
            continue
        mod = importlib.import_module("plans." + modname)
        for h in mod.harnesses():
            assert h.prop == p, (h.name, h.prop, p)
            assert h.name not in names, "duplicate harness " + h.name
            assert h.name.startswith(modname + "_"), h.name
            names.add(h.name)
            out.append(h)
    _cache = out
    return out


def select(prop, tier):
    hs = [h for h in all_harnesses() if h.prop == prop]
    if tier == "quick":
        hs = [h for h in hs if h.tier == "quick"]
    return hs
