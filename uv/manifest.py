#!/usr/bin/env python3
"""Regenerate MANIFEST.json from the per-property table below (kept next to
the plans so claims, notes and not_applicable stay in one place)."""
import json
import os
import sys

HERE = os.path.dirname(os.path.abspath(__file__))
ROOT = os.path.dirname(HERE)
sys.path.insert(0, HERE)
import plan  # noqa: E402

TECH = "bounded model checking of the compiled Rust (Kani 0.68 -> CBMC 6.11 -> CaDiCaL SAT), symbolic inputs, native replay of counterexamples"

# property -> (design section, level text, level note)
CLAIMS = {
    "C01": ("5/C01",
            "Widths {0,1,2,7,8,63,64,65,127,128,129,192,250,256,320,512}: every operand pair for all "
            "add/sub/neg/abs_diff methods (value and overflow/None/saturation), all six operator shapes and both unary "
            "minus shapes, and Sum over 0..=3 elements, against a u128-carry limb reference; SAT-decided with "
            "unwinding assertions.",
            "Bounded: widths listed (quick: {0,1,7,63,64,65,128,250}); sums of at most 3 elements; Kani std models."),
    "C02": ("5/C02",
            "overflowing_mul (generic trimming path) and wrapping_mul (unrolled 1-3-limb paths) at widths "
            "{64,65,127,128,129,192} (wrapping_mul also at 256 bits) and widening_mul at (64,64),(65,64),(64,128),(128,128),(129,65) for ALL operand "
            "pairs with the 64x64->128 limb product abstracted as an uninterpreted function (axioms: 0*x, 1*x, "
            "commutativity, consistency, range); checked/saturating/operators/Product plumbing with the multipliers "
            "stubbed; every operand pair at widths {1,2,7,8,16} with the real multipliers; inv_ring on every value at "
            "{1,2,3,7,8} (Some(x) canonical with a*x = 1 mod 2^BITS exactly for odd a) and = None for every even "
            "value at {0,1,7,64,65,128,250}; on the unit-limb sub-domain (every limb of one operand 0 or 1, the other operand "
            "FULL, one harness per order), where the abstraction is exact: overflowing_mul/wrapping_mul at 128 and 192 bits (thorough also 256 bits, unit operand on the left) and widening_mul "
            "192x192 -> 384 (all rows of the generic addmul full).",
            "The three DoubleWord multiply bodies are decided in C15 (unstubbed, relative to Rust's `*`). Outside: "
            "the generic addmul at LIMBS >= 4 apart from that one 256-bit unit-limb instance (no verdict within 1500-2400 s on any other domain tried), inv_ring's Some branch at 16 bits and above (five dependent 64-bit Newton "
            "steps: > 600 s), full-range 64-bit products without the abstraction."),
    "C03": ("5/C03",
            "All division forms (div_rem, / % /= %= in all shapes, wrapping_/checked_ forms, div_ceil, "
            "(checked_)next_multiple_of incl. its overflow panic) for every (n, d != 0) at 2 bits, and all but the "
            "next_multiple_of forms at {1,7,8} bits, incl. the Euclidean contract q*d+r = n, r < d; zero divisor => "
            "panic in every panicking form / None in every checked form at widths {0,1,64,65,128,250}; thorough adds "
            "one two-limb lattice shape (128 bits, 2x1 limbs, constructive oracle).",
            "Weak fit, stated: FULL 63/64-bit single-limb operands, and every multi-limb shape except the one "
            "registered, did not finish (each native `/` is its own divider circuit; div_nx1 3 limbs, div_nxm 4x3 "
            "> 3000 s). Slice kernels are pinned unreachable by panicking stubs where the shape excludes them."),
    "C04": ("5/C04",
            "== != cmp partial_cmp < <= > >= min max is_zero Hash on all pairs, constants, from_limbs accepts exactly "
            "the canonical arrays (panic otherwise), rand 0.8/0.9 generators under a nondeterministic RngCore, "
            "arbitrary::Arbitrary over symbolic bytes, and a closure sweep of producers, at widths "
            "{0,1,2,7,8,63,64,65,127,128,129,192,250,256}; whatever from_base_be/le (digit strings <= 3, bases 3/10/1000/2^32), "
            "from_str_radix (ASCII <= 3 chars, radix 10/36), try_from_be/le_slice and checked_from_limbs_slice accept is canonical, at "
            "{8,65} bits (thorough 7, 127); canonicity of every other operation's result is asserted inside the other properties' "
            "harnesses.",
            "Not covered: the ill-formed (BITS, LIMBS) clause (compile-time outcomes are not solver-decidable; the "
            "known Uint::<64,2>::MAX case is listed in DESIGN 7), quickcheck and proptest generators (thread RNG / "
            "strategy machinery), closure under mul/div/gcd-family operations beyond what C02/C03 assert."),
    "C09": ("5/C09",
            "from_str_radix on every ASCII string of length <= 3 x every radix 0..=70 (both alphabets, ignored "
            "characters, InvalidRadix/InvalidBase/InvalidDigit/Overflow with payloads and precedence) at Uint<16,1> and "
            "Uint<65,2> (thorough: length 4 at 8 bits, width 0); FromStr prefix sniffing on strings <= 4 bytes; "
            "to_base_le/to_base_be digits (range, no superfluous digit, Horner value, BE = reverse) for FULL values at "
            "fixed bases {2,3,10,16,255,256,10^4,2^32,10^19,2^63,2^64-1} where <= 20 digits; from_base_le/be on every "
            "digit array of length <= 3 (u64 digits) for bases {2,10,2^32,2^64-1}; bases 0 and 1 rejected.",
            "Not claimed: all of Display/Debug/LowerHex/UpperHex/Octal/Binary (core::fmt does not finish under CBMC "
            "even at 8 bits); strings longer than 4 bytes; non-ASCII input; symbolic bases for the digit iterators."),
    "C10": ('5/C10',
            "add_mod's add/compare/conditional-subtract logic for ALL (a, b, m) at widths {1,7,64,65,127,128,129,250} with reduce_mod abstracted to 'any residue below m'; reduce_mod's plumbing for ALL (a, m) with div_rem stubbed; reduce_mod, add_mod end-to-end on every (a, b, m) at 2 and 8 bits (thorough: mul_mod at {1,2,3,4,7,8} - 3 and 4 bits 710-790 s each -, pow_mod with exponent < 8 at {1,2,7,8}) with the real code; pow_mod on every (a, e, m) at {3,4} bits (thorough 2) compositionally with mul_mod replaced by its specification; inv_mod on every (a, m) at {1,3} bits (thorough 2, 4) with the real Lehmer/Euclid code: Some(x) with x < m and a*x = 1 (mod m) exactly when m >= 2 and gcd(a, m) = 1.",
            'Outside: mul_mod/pow_mod/inv_mod value correctness above 8 bits (multi-limb reduction runs through the Knuth division kernels, see C14).'),
    "C16": ('5/C16',
            'alloy-rlp, fastrlp 0.3/0.4 (bytes = minimal big-endian RLP string, length() exact, decode(encode) = v), SSZ and borsh (BYTES little-endian bytes, lengths, round trip), SCALE fixed form (prefix + LE bytes, size_hint and max_encoded_len are upper bounds, round trip), SCALE compact (four modes, size_hint bound, also on a 264-bit type), DER (canonical INTEGER TLV, value_len) for ALL values at widths {0,1,7,8,16,60,64,65,72,128}; serde binary form (capturing Serializer + binary visitor), primitive-types U128/U256/H128/H256, bytemuck Pod/Zeroable, postgres to_sql->from_sql for BOOL/INT2/4/8/OID/MONEY/BYTEA/BIT/VARBIT at 16 bits (thorough 8, 65); postgres NUMERIC wire format (ndigits, weight, sign, dscale, base-10000 digits with trailing zero digits stripped) for every value at 16 bits (thorough: 32 bits, and the NUMERIC round trip at 16 bits), by a constructive oracle that builds the value from symbolic base-10000 digits.',
            "Not claimed: the rlp crate's encoder (RlpStream does not finish), serde human-readable serialisation and postgres text/JSON encodings (format!), NUMERIC above 32 bits, num-bigint, ark-ff, the 55-byte RLP and 536-bit compact limits (width too large for the budget)."),
    "C18": ('5/C18',
            'f64 -> Uint (TryFrom, saturating_from; f32 through exact widening): EVERY f64 bit pattern, split into seven classes (NaN, negative incl. -inf, [0, 1/2) incl. -0 and subnormals, [1/2, 2^52), [2^52, 2^53), finite >= 2^53, +inf), at widths {0,1,8,52,53,54,64,65,128,256}: NotANumber / ValueNegative / ValueTooLarge / Ok(floor(f + 1/2)) exactly, against an integer-only oracle on the bit pattern; every f32 bit pattern at {0,1,8,24,25,64,65,128,129}. Uint -> f64 and Uint -> f32 for ALL values at {0,1,8,53,54,64,65,128,129,192,256}: non-negative, one of the two neighbours of the exact value, exact when representable, +inf (f32) only when the upper neighbour is 2^128 or the value has more than 128 bits; monotonicity on ALL ordered pairs at {8,64,65,128,129} (thorough).',
            "f64::exp2 / f32::exp2 are replaced by an exact power-of-two constructor that fails the harness on a non-integer argument (ruint only passes integers; CBMC's own exp2 is an approximation with a nondeterministic error). The harness-wide unwinding bound is also the recursion bound of TryFrom<f64> (it re-enters itself for negative and too-large inputs): bound max(LIMBS+1, 3), unwinding assertions on. Not covered: wrapping_from's documented-as-unfinished float behaviour beyond what try_from's payloads imply, widths above 256 bits, approx_* functions."),
    "C20": ("5/C20",
            "subtle (ct_eq/ct_gt/ct_lt, conditional_select/assign/swap/negate, bit_ct incl. its panic), the Bits "
            "wrapper's forwarded methods and operators, num-traits (Zero/One/Bounded, Checked*/Saturating*/Wrapping*/"
            "Overflowing* add/sub/neg/shl/shr, To/FromPrimitive, NumCast, PrimInt counts/shifts/rotates/reverse_bits, "
            "To/FromBytes) against the inherent methods on ALL operands; multiplication-based (CheckedMul ... MulAdd) "
            "and division-based facades (all / % operator shapes, CheckedDiv/Rem, Euclid, CheckedEuclid, num-integer "
            "div_floor/mod_floor/div_rem/div_ceil/is_multiple_of) with the inherent multipliers / div_rem replaced by "
            "tagged mixing stubs; zero-divisor None; parity, inc, dec; Sum/Product by value and by reference over 0..=3 "
            "elements; Pow, Inv, PrimInt::pow (every u32 exponent expressible as Uint), Integer::{gcd,lcm,extended_gcd} with the inherent "
            "pow/inv_ring/gcd/lcm/gcd_extended stubbed, Integer::lcm panics exactly when lcm is None. Widths {0,1,7,64,65,128,250}; "
            "PrimInt::{swap_bytes,to_be,from_be,to_le,from_le} at {8,64,72,128,256}.",
            "Not covered: Num::from_str_radix, zeroize (inline assembly, unsupported by Kani), swap_bytes at widths that are not a multiple of 8 (documented as not "
            "well-defined), PrimInt::pow for exponents >= 2^BITS (panics, DESIGN 7). Rotations use amounts 0..=65535."),
    "C11": ('5/C11',
            'N = 1: mul_redc on EVERY odd modulus 3..=63 (thorough 3..=127) and square_redc on every odd modulus 3..=255, composite moduli with zero divisors included, every a, b < m: r < m and r * 2^64 = a * b (mod m); mul_redc on an 11-free-bit lattice around the carry thresholds (m = {2^62-32, 2^62, 2^63-32, 2^63, 2^64-32} + 2x+1, a, b = small or m-1-small, inv from an independent Newton iteration): the result is < m and equals (a*b + k*m)/2^64 reduced once; witnesses for the subtract-taken and extra-carry paths are required. N = 2: square_redc(a) = mul_redc(a, a) and result < m on a 14-free-bit lattice (limbs near 0, 2^62, 2^63, 2^64-1). Thorough: square_redc and Uint::{mul_redc,square_redc} on the N = 1 lattice.',
            'Narrow, stated: the N = 2 harness is differential only (it does not fix the common value), N >= 3, and 64-bit moduli off the lattice (20 free bits did not finish in 900 s: three dependent 64x64 products per row and a debug assertion that needs (v*inv)*m = v*(inv*m)).'),
    "C12": ('5/C12',
            "gcd, lcm, gcd_extended and LehmerMatrix::from + apply on EVERY operand pair at widths {1,3} bits (thorough: 2, 4, 5 for every function, 8 for gcd, 6 and 8 for the matrix) with the real code: gcd equals Euclid's result (gcd(0,0) = 0, gcd(a,0) = a); lcm = Some(a*b/gcd) exactly when it fits, Some(0) with a zero operand, None otherwise; gcd_extended returns the gcd and cofactors with a*x - b*y = g (sign) or b*y - a*x = g (not sign) modulo 2^BITS; the update matrix for a >= b is the identity or maps (a, b) to (c, d) with c >= d, d < b and the same gcd. At these widths LehmerMatrix::from is from_u64 (the complete 64-bit extended Euclid).",
            'Narrow, stated: widths above 8 bits, and therefore the 128-bit prefix path (from_u64_prefix / from_u128_prefix, pinned unreachable by a panicking stub) and the full-precision Euclid fallback, are outside: each loop iteration of from_u64 is two 64-bit dividers and six 64-bit multipliers, and the loop bound grows with the width (4 bits: 5 min per harness).'),
    "C13": ('5/C13',
            'all five pow forms for every (base, exponent): real code at 1 bit (wrapping_pow/pow also at 2, 3 bits), and at {2,3,4,7,8} bits compositionally with overflowing_mul/wrapping_mul replaced by their specification (which C02 decides against the real multipliers at the same widths): value mod 2^BITS, overflow flag exactly when a^e >= 2^BITS, 0^0 = 1; generic-base log/checked_log on every (value, base) at {2,3,4} bits and log10/checked_log10 at 4 bits (compositional: multiplier specification, exact exp2, table-exact log2 on 1..=255): floor(log_b v), None exactly for v = 0 or b < 2; log2/checked_log2 at {1,2,3,4,7,8,64,65,128,250} and log10/checked_log10 below 4 bits for ALL values; log2(0)/log10(0) and root(degree 0) panic.',
            'Outside (measured): generic-base log above 4 bits (its float estimate goes through TryFrom<f64>, whose self-recursion CBMC unrolls 2^bound times: 10 GB at bound 5 and up), root for 2 <= degree < BITS (Newton iteration of unbounded length over exp2 of a fractional argument), approx_* functions, pow above 8 bits.'),
    "C14": ("5/C14",
            "reciprocal(d) = floor((2^128-1)/d) - 2^64 on all 256 table rows x both fills x 4 free low bits, plus "
            "d = 2^63, 2^64-1 and reciprocal_2 at 2^127, 2^128-1; thorough adds div_2x1 on a 20-free-bit lattice with a "
            "constructive (q, r) oracle, once with the real reciprocal and once compositionally with reciprocal() "
            "replaced by its specification.",
            "Weak fit, stated: div_3x2, div_nx1, div_nx2, div_nxm and algorithms::div on lattice shapes did not "
            "finish within 3000 s (every div_2x1/div_3x2 call re-derives the reciprocal in a debug assertion) and are "
            "not claimed; slice lengths 1..=12 of the property are therefore not reached."),
    "C15": ("5/C15",
            "adc_n, sbb_n, add_nx1, cmp, adc, sbb, carrying_add, borrowing_sub, shift_left_small/shift_right_small "
            "(amounts 1..=63) for ALL contents at slice lengths 0..=4 (thorough 6); mul_nx1/addmul_nx1/submul_nx1 "
            "(lengths 0..=2, thorough 4), addmul with independent lengths (acc 0..=3, a,b 0..=2; thorough acc 4, a,b 3) "
            "and addmul_n (0..=2, thorough 5) for ALL contents under the uninterpreted-multiply abstraction, addmul also on the exact "
            "unit-limb sub-domain (one operand's limbs 0 or 1) at (acc 2, a 2, b 1) and (3, 2, 2) (thorough: (4, 2, 2), (3, 3, 2)), per operand order; the real "
            "DoubleWord bodies through mul_nx1/addmul_nx1/submul_nx1 on ALL contents (lengths 1,2) relative to Rust's `*`.",
            "Outside: lengths above those listed (property asks 0..=10); shift amount 0 (debug-panics in `>> 64`: "
            "outside the functions' evident precondition, see DESIGN 7)."),
    "C05": ("5/C05",
            "Widths {0,1,2,7,8,63,64,65,127,128,129,192,250,256}: every value x every usize shift amount x every bit "
            "position (one symbolic index) for all shl/shr method forms incl. exact lost-bit flags, arithmetic_shr, "
            "<< >> <<= >>= for 10 primitive amount types (non-negative amounts) and for Uint-typed amounts of any "
            "magnitude; rotations for amounts 0..=65535 (any usize for widths <= 65 in the thorough tier) and for "
            "concrete whole-limb/mixed amounts at 128/192/250/256 bits.",
            "Bounded: widths listed (quick subset {0,1,7,64,65,128,250}; all ten amount types only at 65 bits in "
            "quick); rotate amounts above 65535 only at widths <= 65 (thorough); negative signed amounts excluded as "
            "the property states."),
    "C06": ("5/C06",
            "Widths {0,1,2,7,8,63,64,65,127,128,129,192,250,256}: every value (pair) x every index: ! & | ^ in all "
            "shapes per bit, bit/set_bit with frame condition, byte/checked_byte incl. the out-of-range panic, all "
            "counting functions characterised positionally, reverse_bits, most_significant_bits, "
            "(checked_)next_power_of_two incl. panic iff None.",
            "Bounded: widths listed (quick subset {0,1,7,64,65,128,250}); indices are any usize."),
    "C07": ("5/C07",
            "Widths {0,1,7,8,15,16,31,32,33,63,64,65,70,127,128,129,192}: every value of all 13 primitive source "
            "types (try_from result, error kind, payload, wrapping/saturating forms, from panics iff Err), every "
            "limb slice of each length 0..=LIMBS+2 for the five from_limbs_slice forms, every Uint value into all 13 "
            "primitive targets (TryFrom by value and reference, to/wrapping_to/saturating_to, payload fields), and "
            "Uint->Uint over {0,1,7,64,65,128,192}^2.",
            "Bounded: widths listed (quick subset); limb-slice lengths are concrete per harness because Kani/CBMC "
            "mis-model symbolic-length copy_from_slice on [u64] (spurious counterexamples, see DESIGN 8)."),
    "C17": ("5/C17",
            "Decoders alloy-rlp, fastrlp 0.3/0.4, rlp, SSZ, borsh, SCALE fixed (compact: thorough, 8/16 bits), DER "
            "(DecodeValue with pre-built header; IntRef/UintRef), serde binary + integer visitors, postgres from_sql "
            "for BOOL/INT2/INT4/INT8/OID/MONEY/BYTEA/BIT/VARBIT (NUMERIC and text types: thorough, tiny inputs) at "
            "widths {0,1,7,8,12,16,60,64,65,72,120}: every byte string of symbolic length 0..=BYTES+3 (thorough +8): "
            "no reachable panic anywhere on the decode path incl. the codec crate's header parsing, Ok(v) => v "
            "canonical and equal to the value the input denotes (reference decoder in the harness), canonical-form "
            "decoders re-encode to exactly the consumed bytes.",
            "Bounded: inputs up to BYTES+8 bytes (property asks +16); quick tier widths {0,12,60,65} and heavy "
            "decoders (scale_fixed, der_value, pg BIT/VARBIT) at {12} only (65 bits in thorough); der::Decode::from_der's TLV header parser, serde_json/bincode front ends, "
            "num-bigint TryFrom and strings longer than 3 bytes are outside reach (measured, DESIGN 5/C17); "
            "alloc::fmt::format is stubbed (error-message formatting is not the subject); the compact decoder runs "
            "with Uint::from_limbs_slice over-approximated (only its accept/reject outcome is affected)."),
    "C08": ("5/C08",
            "All 16 widths in {0,1,7,8,9,15,16,60,63,64,65,72,120,128,129,250}: every value x every byte position for "
            "the encoders (arrays, vectors, Cow, trimmed, copy-into-buffer with symbolic buffer length), and every byte "
            "string of symbolic length 0..=BYTES+3 (thorough: +8) for the decoders, decided by SAT over the compiled "
            "code with unwinding assertions on; panics of the documented-panicking forms proved by unreachability of "
            "the return point.",
            "Bounded: widths listed, decoder inputs up to BYTES+8 bytes; little-endian x86-64 target only; Kani std "
            "models (allocation never fails); quick tier uses the width subset {0,1,8,60,64,65,72,120}."),
}

NOT_APPLICABLE = {
    "C19": "quantifies over source programs expanded by a proc-macro inside rustc; no installed engine executes the "
           "proc_macro runtime symbolically and the digit kernel alone exceeds CBMC's reach beyond one character "
           "(measured: OOM at 62 GB on two characters) - see DESIGN.md 5/C19",
}


def main():
    have = {h.prop for h in plan.all_harnesses()}
    checks = []
    for p in plan.PROPS:
        if p in CLAIMS and p in have:
            ref, text, note = CLAIMS[p]
            checks.append({
                "property_id": p,
                "quick_cmd": "./check %s --tier quick" % p,
                "thorough_cmd": "./check %s --tier thorough" % p,
                "evidence_file": "/verif/evidence/%s.json" % p,
                "replay_cmd_template": "./check %s --replay {path}" % p,
                "engine": "kani-cbmc",
                "level_claimed": {"category": "model_checking", "text": text, "design_ref": "DESIGN.md section " + ref},
                "level_note": note,
                "technique": TECH,
            })
    na = []
    for p in plan.PROPS:
        if p in CLAIMS and p in have:
            continue
        reason = NOT_APPLICABLE.get(p, "check not built yet in this round (planned, see DESIGN.md section 5/%s); "
                                       "nothing is claimed for it" % p)
        na.append({"property_id": p, "reason": reason})
    m = {
        "version": 1,
        "setup_cmd": "./setup.sh",
        "hooks": {
            "guard": "cfg(kani)",
            "enable": "set automatically when cargo-kani compiles /repo (kani-compiler passes --cfg kani); no hook is "
                      "compiled in any ordinary build",
            "baseline_off_cmd": "cd /repo && cargo test --workspace --no-fail-fast --offline",
            "source_commits": HOOK_COMMITS,
            "add_only": True,
        },
        "engines": [
            {"name": "kani-cbmc", "path": "/verif/harness (crate uvh) driven by /verif/uv/run.py",
             "serves_properties": [c["property_id"] for c in checks],
             "kind_free_text": "Kani 0.68.0 compiles /repo's current source plus the harness crate to CBMC goto "
                               "programs; CBMC 6.11.0 unrolls with unwinding assertions and CaDiCaL decides every "
                               "assertion; counterexamples are extracted by concrete playback and replayed natively "
                               "(dev and release) on the same harness body before anything is reported"},
        ],
        "checks": checks,
        "notes": "Exit codes: 0 held, 1 VIOLATION, 2 inconclusive (timeout / tool error / vacuity) - never success. "
                 "Genuine defects repaired by 'fix:' commits in /repo are listed in known_findings.json under 'fixed'.",
        "not_applicable": na,
    }
    with open(os.path.join(ROOT, "MANIFEST.json"), "w") as f:
        json.dump(m, f, indent=1)
    print("MANIFEST.json: %d checks, %d not_applicable" % (len(checks), len(na)))


HOOK_COMMITS = []

if __name__ == "__main__":
    main()
