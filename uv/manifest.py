#!/usr/bin/env python3
"""Regenerate MANIFEST.json from the per-property table below (kept next to
the plans so claims, notes and not_applicable stay in one place)."""
import json
import os
import sys

HERE = os.path.dirname(os.path.abspath(__file__))
ROOT = os.path.dirname(HERE)
sys.path.insert(0, HERE)
import plan  # noqa: E402

TECH = "bounded model checking of the compiled Rust (Kani 0.68 -> CBMC 6.11 -> CaDiCaL SAT), symbolic inputs, native replay of counterexamples"

# property -> (design section, level text, level note)
CLAIMS = {
    "C08": ("5/C08",
            "All 16 widths in {0,1,7,8,9,15,16,60,63,64,65,72,120,128,129,250}: every value x every byte position for "
            "the encoders (arrays, vectors, Cow, trimmed, copy-into-buffer with symbolic buffer length), and every byte "
            "string of symbolic length 0..=BYTES+3 (thorough: +8) for the decoders, decided by SAT over the compiled "
            "code with unwinding assertions on; panics of the documented-panicking forms proved by unreachability of "
            "the return point.",
            "Bounded: widths listed, decoder inputs up to BYTES+8 bytes; little-endian x86-64 target only; Kani std "
            "models (allocation never fails); quick tier uses the width subset {0,1,8,60,64,65,72,120}."),
}

NOT_APPLICABLE = {
    "C19": "quantifies over source programs expanded by a proc-macro inside rustc; no installed engine executes the "
           "proc_macro runtime symbolically and the digit kernel alone exceeds CBMC's reach beyond one character "
           "(measured: OOM at 62 GB on two characters) - see DESIGN.md 5/C19",
}


def main():
    have = {h.prop for h in plan.all_harnesses()}
    checks = []
    for p in plan.PROPS:
        if p in CLAIMS and p in have:
            ref, text, note = CLAIMS[p]
            checks.append({
                "property_id": p,
                "quick_cmd": "./check %s --tier quick" % p,
                "thorough_cmd": "./check %s --tier thorough" % p,
                "evidence_file": "/verif/evidence/%s.json" % p,
                "replay_cmd_template": "./check %s --replay {path}" % p,
                "engine": "kani-cbmc",
                "level_claimed": {"category": "model_checking", "text": text, "design_ref": "DESIGN.md section " + ref},
                "level_note": note,
                "technique": TECH,
            })
    na = []
    for p in plan.PROPS:
        if p in CLAIMS and p in have:
            continue
        reason = NOT_APPLICABLE.get(p, "check not built yet in this round (planned, see DESIGN.md section 5/%s); "
                                       "nothing is claimed for it" % p)
        na.append({"property_id": p, "reason": reason})
    m = {
        "version": 1,
        "setup_cmd": "./setup.sh",
        "hooks": {
            "guard": "cfg(kani)",
            "enable": "set automatically when cargo-kani compiles /repo (kani-compiler passes --cfg kani); no hook is "
                      "compiled in any ordinary build",
            "baseline_off_cmd": "cd /repo && cargo test --workspace --no-fail-fast --offline",
            "source_commits": HOOK_COMMITS,
            "add_only": True,
        },
        "engines": [
            {"name": "kani-cbmc", "path": "/verif/harness (crate uvh) driven by /verif/uv/run.py",
             "serves_properties": [c["property_id"] for c in checks],
             "kind_free_text": "Kani 0.68.0 compiles /repo's current source plus the harness crate to CBMC goto "
                               "programs; CBMC 6.11.0 unrolls with unwinding assertions and CaDiCaL decides every "
                               "assertion; counterexamples are extracted by concrete playback and replayed natively "
                               "(dev and release) on the same harness body before anything is reported"},
        ],
        "checks": checks,
        "notes": "Exit codes: 0 held, 1 VIOLATION, 2 inconclusive (timeout / tool error / vacuity) - never success. "
                 "Genuine defects repaired by 'fix:' commits in /repo are listed in known_findings.json under 'fixed'.",
        "not_applicable": na,
    }
    with open(os.path.join(ROOT, "MANIFEST.json"), "w") as f:
        json.dump(m, f, indent=1)
    print("MANIFEST.json: %d checks, %d not_applicable" % (len(checks), len(na)))


HOOK_COMMITS = []

if __name__ == "__main__":
    main()
