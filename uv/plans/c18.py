"""C18 — floating-point conversions."""
from plan import H, nlimbs

FMT = ("alloc::fmt::format", "stubs::format_stub")
PROBED_TO = [8, 64, 65]      # 128: solver counterexample does not reproduce natively (CBMC exp2 model), not registered
PROBED_MONO = [8, 64]
CLS = ["nan", "negative", "below_half", "half_to_2p52", "2p52_to_2p53", "ge_2p53", "pos_inf"]


def harnesses():
    out = []
    # float -> Uint: only the NaN class finishes.  Every other class drags `value % modulus` (CBMC models fmod with
    # a loop) and the recursive re-entry of try_from into the formula: > 300 s even for the constant input +inf
    # (measured).  The class bodies stay in c18.rs; they are not registered.
    for b in [0, 1, 8, 64, 65]:
        l = nlimbs(b)
        inst = "Uint<%d,%d> <- f64" % (b, l)
        out.append(H("c18_from_f64_%d_nan" % b, "C18", "c18::from_f64::<%d,%d,0>" % (b, l), unwind=max(l + 2, 4),
                     tier="quick" if b in (1, 8, 64) else "thorough", timeout=1800, inst=inst, stubs=[FMT],
                     role="c18::from_f64.nan", domain="every NaN bit pattern (both signs, all payloads)", free_bits=53,
                     fns=["TryFrom<f64>", "saturating_from", "wrapping_from"]))
    for b in PROBED_TO:
        l = nlimbs(b)
        out.append(H("c18_to_f64_%d" % b, "C18", "c18::to_f64::<%d,%d>" % (b, l), unwind=8 * l + 4,
                     tier="quick" if b in (8, 64) else "thorough", timeout=3600, inst="f64 <- Uint<%d,%d>" % (b, l),
                     domain="FULL value", free_bits=b, fns=["From<Uint> for f64", "most_significant_bits"]))
        if b in PROBED_MONO:
          out.append(H("c18_to_f64_monotone_%d" % b, "C18", "c18::to_f64_monotone::<%d,%d>" % (b, l), unwind=8 * l + 4,
                     tier="thorough", timeout=3600, inst="f64 <- Uint<%d,%d>" % (b, l),
                     domain="FULL ordered pairs", free_bits=2 * b, fns=["From<Uint> for f64"]))
    return out
