"""C18 — floating-point conversions."""
from plan import H, nlimbs

FMT = ("alloc::fmt::format", "stubs::format_stub")
# CBMC's exp2 is an approximate model with a nondeterministic error term; ruint calls exp2 on integer-valued arguments
# only, where the exact result is a bit pattern: the stub builds it (and fails the harness on a non-integer argument)
EXP2 = [("f64::exp2", "stubs::exp2_exact"), ("f32::exp2", "stubs::exp2f_exact")]
CLS = ["nan", "negative", "below_half", "half_to_2p52", "2p52_to_2p53", "ge_2p53", "pos_inf"]
CLSDOM = ["every NaN bit pattern (both signs, all payloads)", "every float below zero incl. -inf",
          "+0, -0 and every float in [0, 1/2) incl. subnormals", "every float in [1/2, 2^52)", "every float in [2^52, 2^53)",
          "every finite float >= 2^53", "+infinity"]


def RECUN(l):
    # TryFrom<f64> re-enters itself twice per activation (negative -> abs, too large -> rem): CBMC unrolls the recursion to
    # the harness-wide bound, i.e. 2^bound copies of the body (bound 6 exhausted 14 GB); the real depth is 3
    return max(l + 1, 3)


def harnesses():
    out = []
    for b in [0, 1, 8, 52, 53, 54, 64, 65, 128, 256]:
        l = nlimbs(b)
        inst = "Uint<%d,%d> <- f64" % (b, l)
        for c, cn in enumerate(CLS):
            quick = b in (1, 8, 64, 128)
            cov = []
            if c in (3, 4, 5):
                # which outcomes exist in the class at this width
                lo = {3: 1, 4: 53, 5: 54}[c]      # smallest bit length of a value in the class
                hi = {3: 53, 4: 53, 5: 2000}[c]   # largest (class 3 rounds up to 2^52)
                if b >= lo and c != 3:
                    cov.append("fits")
                if c == 3 and b >= 1:
                    cov.append("fits")
                if b < hi:
                    cov.append("too-large")
            out.append(H("c18_try_from_f64_%d_%s" % (b, cn), "C18", "c18::try_from_f64::<%d,%d,%d>" % (b, l, c),
                         unwind=RECUN(l), tier="quick" if quick else "thorough", timeout=1800, inst=inst,
                         stubs=[FMT] + EXP2, role="c18::try_from_f64." + cn, domain=CLSDOM[c] + "; exp2 on integer arguments "
                         "replaced by the exact power of two", free_bits=64, fns=["TryFrom<f64>"], covers_required=cov))
            out.append(H("c18_saturating_from_f64_%d_%s" % (b, cn), "C18", "c18::saturating_from_f64::<%d,%d,%d>" % (b, l, c),
                         unwind=RECUN(l), tier="quick" if b in (8, 64) else "thorough", timeout=1800, inst=inst,
                         stubs=[FMT] + EXP2, role="c18::saturating_from_f64." + cn, domain=CLSDOM[c], free_bits=64,
                         fns=["saturating_from::<f64>", "TryFrom<f64>"]))
    for b in [0, 1, 8, 24, 25, 64, 65, 128, 129]:
        l = nlimbs(b)
        out.append(H("c18_from_f32_%d" % b, "C18", "c18::from_f32::<%d,%d>" % (b, l), unwind=RECUN(l),
                     tier="quick" if b in (8, 64, 128) else "thorough", timeout=1800, inst="Uint<%d,%d> <- f32" % (b, l),
                     stubs=[FMT] + EXP2, domain="every f32 bit pattern", free_bits=32, fns=["TryFrom<f32>", "TryFrom<f64>"]))
    for b in [0, 1, 8, 53, 54, 64, 65, 128, 129, 192, 256]:
        l = nlimbs(b)
        out.append(H("c18_to_f64_%d" % b, "C18", "c18::to_f64::<%d,%d>" % (b, l), unwind=8 * l + 4,
                     tier="quick" if b in (8, 64, 128) else "thorough", timeout=3600, inst="f64 <- Uint<%d,%d>" % (b, l),
                     stubs=EXP2, domain="FULL value", free_bits=b, fns=["From<Uint> for f64", "most_significant_bits"]))
        out.append(H("c18_to_f32_%d" % b, "C18", "c18::to_f32::<%d,%d>" % (b, l), unwind=8 * l + 4,
                     tier="quick" if b in (8, 64, 128) else "thorough", timeout=3600, inst="f32 <- Uint<%d,%d>" % (b, l),
                     stubs=EXP2, domain="FULL value", free_bits=b, fns=["From<Uint> for f32", "most_significant_bits"],
                     covers_required=(["infinite"] if b >= 128 else [])))
        if b in (8, 64, 65, 128, 129):
            out.append(H("c18_to_f64_monotone_%d" % b, "C18", "c18::to_f64_monotone::<%d,%d>" % (b, l), unwind=8 * l + 4,
                         tier="thorough", timeout=3600, inst="f64 <- Uint<%d,%d>" % (b, l), stubs=EXP2,
                         domain="FULL ordered pairs", free_bits=2 * b, fns=["From<Uint> for f64"]))
            out.append(H("c18_to_f32_monotone_%d" % b, "C18", "c18::to_f32_monotone::<%d,%d>" % (b, l), unwind=8 * l + 4,
                         tier="thorough", timeout=3600, inst="f32 <- Uint<%d,%d>" % (b, l), stubs=EXP2,
                         domain="FULL ordered pairs", free_bits=2 * b, fns=["From<Uint> for f32"]))
    return out
