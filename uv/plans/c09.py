"""C09 — radix conversion and parsing."""
from plan import H, nlimbs
import math

FMT = ("alloc::fmt::format", "stubs::format_stub")
BASES = [2, 3, 10, 16, 255, 256, 10000, 2 ** 32, 10 ** 19, 2 ** 63, 2 ** 64 - 1]


# digit-iterator instances that gave no result within 2400 s in the thorough validation run (many digits of a
# u128-by-constant division each): not registered
DIGITS_DROPPED = {(64, 10), (64, 255), (64, 10000), (65, 10), (65, 255), (65, 10000), (128, 255), (128, 10000),
                  (128, 10 ** 19), (128, 2 ** 64 - 1)}


def ndigits(bits, base):
    return 0 if bits == 0 else int(math.floor(bits / math.log2(base))) + 1


def harnesses():
    out = []
    for (b, n) in [(16, 3), (65, 3), (8, 4), (0, 2)]:
        l = nlimbs(b)
        inst = "Uint<%d,%d>" % (b, l)
        for hi in (0, 1):
            tier = "quick" if (b, n) in ((16, 3), (65, 3)) else "thorough"
            out.append(H("c09_parse_%d_n%d_%s" % (b, n, "hi" if hi else "lo"), "C09",
                         "c09::parse::<%d,%d,%d,%d>" % (b, l, n, hi), unwind=max(n, l) + 3, tier=tier, timeout=1800,
                         inst=inst, stubs=[FMT], role="c09::parse." + ("hi" if hi else "lo"),
                         domain="any ASCII string of symbolic length 0..=%d x radix %s" % (n, "37..=70" if hi else "0..=36"),
                         free_bits=7 * n + 10, fns=["from_str_radix"], covers_required=["accepts"]))
        tier = "quick" if (b, n) == (16, 3) else "thorough"
        out.append(H("c09_from_str_%d_n%d" % (b, n + 1), "C09", "c09::from_str::<%d,%d,%d>" % (b, l, n + 1),
                     unwind=max(n + 1, l) + 3, tier=tier, timeout=1800, inst=inst, stubs=[FMT],
                     domain="any ASCII string of symbolic length 0..=%d" % (n + 1), free_bits=7 * (n + 1) + 4,
                     fns=["FromStr::from_str"], covers_required=["prefixed"]))
    for b in [8, 16, 64, 65, 128]:
        l = nlimbs(b)
        inst = "Uint<%d,%d>" % (b, l)
        for base in BASES:
            nd = ndigits(b, base)
            if nd > 20:
                continue
            if (b, base) in DIGITS_DROPPED:
                continue
            quick = (b, base) in ((8, 2), (8, 10), (16, 10), (16, 16), (64, 2 ** 32), (64, 10 ** 19), (65, 2 ** 63),
                                  (65, 2 ** 64 - 1))
            out.append(H("c09_digits_%d_b%d" % (b, base), "C09", "c09::digits::<%d,%d,%d,%d>" % (b, l, base, nd),
                         unwind=max(nd + 3, l + 3), tier="quick" if quick else "thorough", timeout=2400, inst=inst,
                         domain="FULL value, base %d (at most %d digits)" % (base, nd), free_bits=b,
                         fns=["to_base_le", "to_base_be"], role="c09::digits"))
        for base in [2, 10, 2 ** 32, 2 ** 64 - 1]:
            if (b, base) == (128, 2 ** 64 - 1):
                continue   # no result in 2400 s (thorough validation run)
            nd = 3
            quick = (b, base) in ((8, 10), (8, 2 ** 32), (64, 2 ** 32), (65, 2 ** 64 - 1), (65, 10))   # incl. base >= 2^BITS
            out.append(H("c09_from_digits_%d_b%d" % (b, base), "C09",
                         "c09::from_digits::<%d,%d,%d,%d>" % (b, l, base, nd), unwind=max(nd + 3, l + 3, 7),
                         tier="quick" if quick else "thorough", timeout=2400, inst=inst,
                         domain="any digit array (u64 digits) of symbolic length 0..=3, base %d, LE or BE" % base,
                         free_bits=64 * nd + 3, fns=["from_base_le", "from_base_be"], role="c09::from_digits"))
    for b in [0, 8, 65]:
        l = nlimbs(b)
        out.append(H("c09_invalid_base_%d" % b, "C09", "c09::invalid_base::<%d,%d>" % (b, l), unwind=l + 3, tier="quick",
                     inst="Uint<%d,%d>" % (b, l), domain="base 0 or 1, one arbitrary digit", free_bits=66,
                     fns=["from_base_le", "from_base_be"]))
    # formatting (c09::fmt_pow2 with Formatter::pad_integral replaced by stubs::pad_integral_model) was probed at 8 bits:
    # CBMC exhausts 14 GB after ~10 min inside core::fmt::write / the u64 formatting impls - not registered
    return out
