"""C07 — integer conversions."""
from plan import H, nlimbs

SRC = ["bool", "u8", "u16", "u32", "u64", "u128", "usize", "i8", "i16", "i32", "i64", "i128", "isize"]
SRCBITS = {"bool": 1, "u8": 8, "u16": 16, "u32": 32, "u64": 64, "u128": 128, "usize": 64, "i8": 8, "i16": 16,
           "i32": 32, "i64": 64, "i128": 128, "isize": 64}
SIGNED = {"i8", "i16", "i32", "i64", "i128", "isize"}
WIDTHS = [0, 1, 7, 8, 15, 16, 31, 32, 33, 63, 64, 65, 70, 127, 128, 129, 192]
QUICK = [0, 1, 7, 16, 63, 64, 65, 70, 128, 129]
UU = [0, 1, 7, 64, 65, 128, 192]
UUQ = [0, 7, 64, 65, 128]


def harnesses():
    out = []
    for b in WIDTHS:
        l = nlimbs(b)
        tier = "quick" if b in QUICK else "thorough"
        inst = "Uint<%d,%d>" % (b, l)
        un = l + 2
        out.append(H("c07_to_uint_%d" % b, "C07", "c07::to_uint_all::<%d,%d>" % (b, l), unwind=un, tier=tier,
                     inst=inst + " <- bool,u8..u128,usize,i8..i128,isize", domain="every value of every source type",
                     free_bits=8 + 16 + 32 + 64 + 128 + 64 + 1 + 8 + 16 + 32 + 64 + 128 + 64,
                     fns=["TryFrom<T> for Uint (13 primitive types)", "wrapping_from", "saturating_from"],
                     covers_required=["fits"] + (["too-large"] if b < 128 else [])))
        out.append(H("c07_from_ok_%d" % b, "C07", "c07::from_ok_all::<%d,%d>" % (b, l), unwind=un, tier=tier,
                     inst=inst, domain="symbolic source type x every in-range value", free_bits=132,
                     fns=["Uint::from"]))
        out.append(H("c07_from_bad_%d" % b, "C07", "c07::from_bad_all::<%d,%d>" % (b, l), unwind=un, tier=tier,
                     inst=inst, kind="never_returns", domain="symbolic source type x every out-of-range value",
                     free_bits=132, fns=["Uint::from"]))
        out.append(H("c07_from_uint_%d" % b, "C07", "c07::from_uint_all::<%d,%d>" % (b, l), unwind=un, tier=tier,
                     inst="bool,u8..u128,usize,i8..i128,isize <- " + inst, domain="symbolic target type x FULL value",
                     free_bits=b + 4,
                     fns=["TryFrom<Uint> for T", "TryFrom<&Uint> for T", "to", "wrapping_to", "saturating_to"],
                     covers_required=(["overflow"] if b > 7 else [])))
        if b > 7:
            out.append(H("c07_to_bad_%d" % b, "C07", "c07::to_bad_all::<%d,%d>" % (b, l), unwind=un, tier=tier,
                         inst=inst, kind="never_returns",
                         domain="symbolic target type x every value that does not fit it", free_bits=b + 4,
                         fns=["to"]))
        nx = l + 2
        for ln in range(0, nx + 1):
            can_over = ln > l or (ln == l and b % 64 != 0)
            out.append(H("c07_limbs_slice_%d_len%d" % (b, ln), "C07",
                         "c07::limbs_slice::<%d,%d,%d,%d>" % (b, l, nx, ln), unwind=nx + 2, tier=tier, inst=inst,
                         domain="any limb slice of length %d (lengths 0..=LIMBS+2 one harness each)" % ln,
                         free_bits=64 * ln, role="c07::limbs_slice",
                         fns=["overflowing_from_limbs_slice", "wrapping_from_limbs_slice",
                              "checked_from_limbs_slice", "saturating_from_limbs_slice", "from_limbs_slice"],
                         covers_required=(["overflow"] if can_over else [])))
            if can_over:
                out.append(H("c07_limbs_slice_panics_%d_len%d" % (b, ln), "C07",
                             "c07::limbs_slice_panics::<%d,%d,%d,%d>" % (b, l, nx, ln), unwind=nx + 2, tier=tier,
                             inst=inst, kind="never_returns", role="c07::limbs_slice_panics",
                             domain="any out-of-range limb slice of length %d" % ln, free_bits=64 * ln,
                             fns=["from_limbs_slice"]))
    for s in UU:
        for d in UU:
            tier = "quick" if (s in UUQ and d in UUQ) else "thorough"
            ls, ld = nlimbs(s), nlimbs(d)
            inst = "Uint<%d,%d> <- Uint<%d,%d>" % (d, ld, s, ls)
            un = max(ls, ld) + 2
            out.append(H("c07_uint_%d_to_%d" % (s, d), "C07", "c07::uint_to_uint::<%d,%d,%d,%d>" % (s, ls, d, ld),
                         unwind=un, tier=tier, inst=inst, domain="FULL source value", free_bits=s,
                         fns=["UintTryFrom::uint_try_from", "UintTryTo::uint_try_to", "from", "to", "wrapping_from",
                              "wrapping_to", "saturating_from", "saturating_to"],
                         covers_required=(["overflow"] if s > d else [])))
            if s > d:
                out.append(H("c07_uint_%d_to_%d_panics" % (s, d), "C07",
                             "c07::uint_to_uint_panics::<%d,%d,%d,%d>" % (s, ls, d, ld), unwind=un, tier=tier,
                             inst=inst, kind="never_returns", domain="every source value >= 2^BITS_DST",
                             free_bits=s + 1, fns=["from", "to"]))
    return out
