"""C10 — modular arithmetic."""
from plan import H, nlimbs

PIN = [("ruint::algorithms::div::div_nx1", "stubs::pinned_div_nx1"),
       ("ruint::algorithms::div::div_nx2", "stubs::pinned_div_nx2"),
       ("ruint::algorithms::div::div_nxm", "stubs::pinned_div_nxm")]
RED = [("ruint::Uint::reduce_mod", "stubs::reduce_mod_any")]
MIXDIV = [("ruint::Uint::div_rem", "stubs::div_rem_mix")]
NAMES = ["reduce_mod", "add_mod", "mul_mod", "pow_mod"]


def harnesses():
    out = []
    for b in [1, 7, 64, 65, 127, 128, 129, 250]:
        l = nlimbs(b)
        tier = "quick" if b in (7, 64, 65, 128, 250) else "thorough"
        inst = "Uint<%d,%d>" % (b, l)
        out.append(H("c10_add_mod_glue_%d" % b, "C10", "c10::add_mod_glue::<%d,%d>" % (b, l), unwind=8 * l + 3, tier=tier,
                     inst=inst, stubs=RED, abstract=True, timeout=900,
                     domain="FULL (a, b, m); reduce_mod abstracted to 'any residue below m' (0 for m = 0)",
                     free_bits=5 * b, fns=["add_mod"], covers_required=(["sum-carries-out"] if b % 64 == 0 else [])))
        out.append(H("c10_reduce_mod_glue_%d" % b, "C10", "c10::reduce_mod_glue::<%d,%d>" % (b, l), unwind=8 * l + 3,
                     tier=tier, inst=inst, stubs=MIXDIV, abstract=True, timeout=900,
                     domain="FULL (a, m); div_rem replaced by a tagged mixing function", free_bits=2 * b,
                     fns=["reduce_mod"]))
    for b in [1, 2, 3, 4, 7, 8]:
        for w, fn in enumerate(NAMES):
            if b in (3, 4) and w != 2:
                continue   # 3 and 4 bits: mul_mod only (the specification the compositional pow_mod harnesses rely on)
            quick = (b == 8 and w in (0, 1)) or (b == 2 and w < 2)   # mul_mod at 2 bits: 270-800 s, thorough
            out.append(H("c10_narrow_%d_%s" % (b, fn), "C10", "c10::narrow::<%d,%d>" % (b, w), unwind=12,
                         tier="quick" if quick else "thorough", timeout=3600, inst="Uint<%d,1>" % b, stubs=PIN,
                         role="c10::narrow." + fn,
                         domain="every (a, b, m) of the width incl. m = 0, 1 and unreduced operands"
                                + ("; exponent < 8" if w == 3 else "") + "; real code, slice kernels pinned unreachable",
                         free_bits=3 * b, fns=[fn], covers_required=["zero-modulus"] + (["unreduced-operand"] if b > 1 else [])))
    # 5/6 bits finish (33 s, 400 s) but mul_mod's specification is decided at {1,2,3,4,7,8} only (5/6: 8 GB and growing, stopped);
    # 7 and 8 bits: no result in 1500 s (left-to-right oracle against the right-to-left loop)
    for b in [2, 3, 4]:
        out.append(H("c10_pow_mod_spec_%d" % b, "C10", "c10::pow_mod_spec::<%d>" % b, unwind=b + 3,
                     tier="quick" if b in (3, 4) else "thorough", timeout=1800, inst="Uint<%d,1>" % b,
                     stubs=[("ruint::Uint::mul_mod", "stubs::mul_mod_spec1")], role="c10::pow_mod_spec",
                     domain="every (a, e, m) of the width incl. m = 0, 1 and a >= m; compositional: mul_mod replaced by its "
                            "specification (decided against the real code by c10_narrow_*_mul_mod)", free_bits=3 * b,
                     fns=["pow_mod"], covers_required=["zero-modulus", "unreduced-operand"] + (["nilpotent-base"] if b >= 3 else [])))
    for b in [1, 2, 3, 4]:   # 5 bits and up: the same loop costs 850 s and more per harness in C12's probes - not registered
        cov = [] if b == 1 else (["exists"] if b == 2 else ["exists", "unreduced"])
        out.append(H("c10_inv_mod_narrow_%d" % b, "C10", "c12::inv_mod_narrow::<%d>" % b, unwind={1: 3, 2: 3, 3: 4, 4: 5, 5: 6, 6: 6, 8: 8}[b],
                     tier="quick" if b in (1, 3) else "thorough", timeout=3600, inst="Uint<%d,1>" % b,
                     stubs=PIN + [("ruint::algorithms::LehmerMatrix::from_u128_prefix", "stubs::pinned_from_u128_prefix")],
                     role="c10::inv_mod", domain="every (a, m) of the width incl. m = 0, 1 and a >= m; real code; "
                     "slice division kernels pinned unreachable; oracle: Euclid on u8", free_bits=2 * b,
                     fns=["inv_mod", "algorithms::inv_mod", "LehmerMatrix::from_u64", "LehmerMatrix::apply"], covers_required=cov))
    return out
