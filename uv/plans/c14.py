"""C14 — limb-slice division kernels."""
from plan import H

LAT = ("LATTICE: divisor limbs by code (0 zero, 1 ones, 2 low8, 3 ones-over-low8, 4 high8, 5 topbit+low8, 6 one, "
       "7 2^63, 8 bit31+low8, 9 high8-over-ones); quotient limbs = 8 free bits placed low/high/complemented/under a "
       "set top bit (pattern symbolic); remainder small or d-1-small; n = q*d + r built exactly; ")


def shape(name, nn, nd, dc, which, pad=0, tier="quick", timeout=1200):
    nq = nn - nd + 1
    kern = ["div_nx1", "div_nx2", "div_nxm", "algorithms::div"][which]
    fns = {0: ["div_nx1", "div_nx1_normalized", "div_2x1", "reciprocal"],
           1: ["div_nx2", "div_nx2_normalized", "div_3x2", "reciprocal_2"],
           2: ["div_nxm", "div_3x2", "reciprocal_2", "submul_nx1", "adc_n"],
           3: ["algorithms::div"]}[which]
    free = 10 * nq + 9 + 8 * sum(1 for i in range(nd) if ((dc >> (4 * i)) & 0xf) not in (0, 1, 6, 7))
    return H("c14_%s" % name, "C14",
             "c14::slice_div::<%d,%d,%d,%d,%d,%d,%d,%d>" % (nn, nd, nq, dc, which, pad, nn + pad, nd + pad),
             unwind=max(nn + pad, 4) + 3, tier=tier, timeout=timeout,
             inst="%s, numerator %d limbs, divisor %d limbs (codes %x), padding %d" % (kern, nn, nd, dc, pad),
             domain=LAT + "constructive oracle (q, r) exact", free_bits=free, fns=fns, role="c14::" + kern)


PROBED_OK = {"div_2x1", "div_2x1_spec"}   # div_3x2_spec, nx1_3_norm_spec: > 3000 s even with the reciprocals by specification   # kernel-shape harnesses that finished in a measured probe (name -> registered)


def harnesses():
    out = _all()
    keep = {"c14_reciprocal", "c14_reciprocal_extremes"} | {"c14_" + n for n in PROBED_OK}
    return [h for h in out if h.name in keep] + const_divisors()


# div_3x2 with a CONSTANT divisor and every numerator (probing): (name, d1, d0)
CONST_D = [("2p127", 1 << 63, 0), ("2p127p1", 1 << 63, 1), ("max", (1 << 64) - 1, (1 << 64) - 1),
           ("sqrt", 0x800000005a827999, 0xc000000000000000), ("mid", 0xc3a5c85c97cb3127, 0xb492b66fbe98f273)]


def const_divisors():
    # c14::div_3x2_const (constant normalised divisor, EVERY numerator: 192 free bits) and c14::div_3x2_const_edge (any quotient
    # limb, remainder within 4 of 0 or d: 67 free bits) were probed on the five divisors of CONST_D - with d constant the
    # reciprocal, its debug re-derivation and one operand of every product are constants - and gave no verdict in 1500 s resp.
    # 900 s for any of them, not even d = 2^127.  Not registered; the bodies stay in c14.rs.
    return []
