"""C14 — limb-slice division kernels."""
from plan import H

LAT = ("LATTICE: divisor limbs by code (0 zero, 1 ones, 2 low8, 3 ones-over-low8, 4 high8, 5 topbit+low8, 6 one, "
       "7 2^63, 8 bit31+low8, 9 high8-over-ones); quotient limbs = 8 free bits placed low/high/complemented/under a "
       "set top bit (pattern symbolic); remainder small or d-1-small; n = q*d + r built exactly; ")


def shape(name, nn, nd, dc, which, pad=0, tier="quick", timeout=1200):
    nq = nn - nd + 1
    kern = ["div_nx1", "div_nx2", "div_nxm", "algorithms::div"][which]
    fns = {0: ["div_nx1", "div_nx1_normalized", "div_2x1", "reciprocal"],
           1: ["div_nx2", "div_nx2_normalized", "div_3x2", "reciprocal_2"],
           2: ["div_nxm", "div_3x2", "reciprocal_2", "submul_nx1", "adc_n"],
           3: ["algorithms::div"]}[which]
    free = 10 * nq + 9 + 8 * sum(1 for i in range(nd) if ((dc >> (4 * i)) & 0xf) not in (0, 1, 6, 7))
    return H("c14_%s" % name, "C14",
             "c14::slice_div::<%d,%d,%d,%d,%d,%d,%d,%d>" % (nn, nd, nq, dc, which, pad, nn + pad, nd + pad),
             unwind=max(nn + pad, 4) + 3, tier=tier, timeout=timeout,
             inst="%s, numerator %d limbs, divisor %d limbs (codes %x), padding %d" % (kern, nn, nd, dc, pad),
             domain=LAT + "constructive oracle (q, r) exact", free_bits=free, fns=fns, role="c14::" + kern)


PROBED_OK = {"div_2x1", "div_2x1_spec"}   # div_3x2_spec, nx1_3_norm_spec: > 3000 s even with the reciprocals by specification   # kernel-shape harnesses that finished in a measured probe (name -> registered)


def harnesses():
    out = _all()
    keep = {"c14_reciprocal", "c14_reciprocal_extremes"} | {"c14_" + n for n in PROBED_OK}
    return [h for h in out if h.name in keep] + const_divisors()


# div_3x2 with a CONSTANT divisor and every numerator (probing): (name, d1, d0)
CONST_D = [("2p127", 1 << 63, 0), ("2p127p1", 1 << 63, 1), ("max", (1 << 64) - 1, (1 << 64) - 1),
           ("sqrt", 0x800000005a827999, 0xc000000000000000), ("mid", 0xc3a5c85c97cb3127, 0xb492b66fbe98f273)]


def const_divisors():
    # c14::div_3x2_const (constant normalised divisor, EVERY numerator: 192 free bits) and c14::div_3x2_const_edge (any quotient
    # limb, remainder within 4 of 0 or d: 67 free bits) were probed on the five divisors of CONST_D - with d constant the
    # reciprocal, its debug re-derivation and one operand of every product are constants - and gave no verdict in 1500 s resp.
    # 900 s for any of them, not even d = 2^127.  Not registered; the bodies stay in c14.rs.
    return []


def _all():
    out = []
    out.append(H("c14_reciprocal", "C14", "c14::reciprocal", unwind=3, tier="quick", timeout=1800,
                 inst="reciprocal(u64)", fns=["reciprocal"], free_bits=13,
                 domain="d = 1 | row(8 free bits: all 256 table rows) | fill(all zeros / all ones) | low(4 free bits); "
                        "oracle native u128 division", covers_required=["row-0", "row-255"]))
    out.append(H("c14_reciprocal_extremes", "C14", "c14::reciprocal_extremes", unwind=3, tier="quick", timeout=600,
                 inst="reciprocal, reciprocal_2", fns=["reciprocal", "reciprocal_2"], free_bits=1,
                 domain="d = 2^63, 2^64-1, 2^127, 2^128-1"))
    out.append(H("c14_reciprocal_2", "C14", "c14::reciprocal_2", unwind=68, tier="thorough", timeout=3600,
                 inst="reciprocal_2(u128)", fns=["reciprocal_2"], free_bits=19,
                 domain="d1 = 1|row(8)|fill, d0 = pattern limb; oracle: defining inequality by shift-and-add"))
    out.append(H("c14_div_2x1", "C14", "c14::div_2x1", unwind=3, tier="thorough", timeout=3600, inst="div_2x1",
                 fns=["div_2x1", "reciprocal"], free_bits=20,
                 domain="d = 1|row in {0,85,170,255}|fill|low(2); q pattern limb (8 free bits x 4 placements); r small or "
                        "d-1-small; u = q*d + r built exactly (measured 632 s)"))
    RS = [("ruint::algorithms::div::reciprocal::reciprocal_mg10", "stubs::reciprocal_spec")]
    out.append(H("c14_div_2x1_spec", "C14", "c14::div_2x1", unwind=3, tier="thorough", timeout=3600, inst="div_2x1",
                 fns=["div_2x1"], free_bits=20, stubs=RS, abstract=True,
                 domain="as c14_div_2x1, with reciprocal() replaced by its specification (unique v with "
                        "(2^64+v)*d <= 2^128-1 < (2^64+v+1)*d), which c14_reciprocal decides separately"))
    RS2 = RS + [("ruint::algorithms::div::reciprocal::reciprocal_2_mg10", "stubs::reciprocal_2_spec")]
    out.append(H("c14_div_3x2_spec", "C14", "c14::div_3x2", unwind=5, tier="thorough", timeout=7200, inst="div_3x2",
                 fns=["div_3x2"], free_bits=30, stubs=RS2, abstract=True,
                 domain="d1 = 1|row in {0,85,170,255}|fill, d0 pattern limb; q pattern limb; r small or d-1-small; "
                        "u = q*d + r built exactly; reciprocal_2() replaced by its specification"))
    h = shape("nx1_3_norm_spec", 3, 1, 0x5, 0, tier="thorough", timeout=7200)
    h.stubs = RS
    h.abstract = True
    out.append(h)
    out.append(H("c14_div_3x2", "C14", "c14::div_3x2", unwind=5, tier="quick", timeout=1800, inst="div_3x2",
                 fns=["div_3x2", "reciprocal_2"], free_bits=38,
                 domain="d1 = 1|row(8)|fill, d0 pattern limb; q pattern limb; r small or d-1-small; u = q*d + r"))
    # kernels at fixed shapes
    out.append(shape("nx1_3_norm", 3, 1, 0x5, 0))
    out.append(shape("nx1_3_unnorm", 3, 1, 0x8, 0))
    out.append(shape("nx1_2_small", 2, 1, 0x2, 0, tier="thorough"))
    out.append(shape("nx1_4_ones", 4, 1, 0x1, 0, tier="thorough"))
    out.append(shape("nx2_3_norm", 3, 2, 0x52, 1))
    out.append(shape("nx2_3_unnorm", 3, 2, 0x81, 1))
    out.append(shape("nx2_4_one", 4, 2, 0x63, 1, tier="thorough"))
    out.append(shape("nxm_4x3_norm", 4, 3, 0x522, 2, timeout=2400))
    out.append(shape("nxm_4x3_unnorm", 4, 3, 0x813, 2, timeout=2400))
    out.append(shape("nxm_3x3_ones", 3, 3, 0x511, 2, tier="thorough", timeout=2400))
    out.append(shape("nxm_5x3_unnorm", 5, 3, 0x892, 2, tier="thorough", timeout=3600))
    out.append(shape("nxm_5x4_norm", 5, 4, 0x5203, 2, tier="thorough", timeout=3600))
    # algorithms::div: dispatch + trimming + padding
    out.append(shape("div_1x1_pad1", 1, 1, 0x8, 3, pad=1))
    out.append(shape("div_2x1_pad1", 2, 1, 0x5, 3, pad=1))
    out.append(shape("div_2x2_pad0", 2, 2, 0x82, 3, pad=0))
    out.append(shape("div_3x2_pad1", 3, 2, 0x53, 3, pad=1, tier="thorough"))
    out.append(shape("div_4x3_pad1", 4, 3, 0x822, 3, pad=1, tier="thorough", timeout=3600))
    out.append(shape("div_3x3_pad2", 3, 3, 0x612, 3, pad=2, tier="thorough", timeout=3600))
    for (nn, ndl, dc) in [(1, 2, 0x52), (2, 3, 0x812), (1, 4, 0x6000)]:
        out.append(H("c14_div_short_%dx%d" % (nn, ndl), "C14", "c14::div_short::<%d,%d,%d>" % (nn, ndl, dc),
                     unwind=8, tier="quick", timeout=900, inst="algorithms::div, numerator %d < divisor %d limbs" % (nn, ndl),
                     domain="numerator zero or pattern limbs, divisor by codes %x" % dc, free_bits=10 * nn + 17,
                     fns=["algorithms::div"], role="c14::div_short"))
    return out
