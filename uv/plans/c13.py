"""C13 — pow, log, root (non-float paths)."""
from plan import H, nlimbs

FMT = ("alloc::fmt::format", "stubs::format_stub")


def harnesses():
    out = []
    names = ["overflowing_pow", "pow", "wrapping_pow", "checked_pow", "saturating_pow"]
    for b in [1, 2, 3]:   # 7 and 8 bits: the flag-carrying forms did not finish in 1800 s (thorough run), not registered
        for w, fn in enumerate(names):
            if b > 1 and w not in (1, 2):
                continue   # overflowing/checked/saturating_pow above one bit: CBMC gives up (out of memory) - not registered
            out.append(H("c13_pow_narrow_%d_%s" % (b, fn), "C13", "c13::pow_narrow::<%d,%d>" % (b, w), unwind=b + 3,
                         tier="quick" if (b == 1 or (b == 3 and w == 2)) else "thorough", timeout=1800,
                         inst="Uint<%d,%d>" % (b, nlimbs(b)), role="c13::pow_narrow." + fn,
                         domain="every (base, exponent) pair of the width; real multipliers", free_bits=2 * b, fns=[fn],
                         covers_required=(["overflows"] if b >= 2 else []) + ["zero-to-zero"]))
    MULSPEC = [("ruint::Uint::overflowing_mul", "stubs::overflowing_mul_spec1"),
               ("ruint::Uint::wrapping_mul", "stubs::wrapping_mul_spec1")]
    FLT = [("f64::exp2", "stubs::exp2_exact"), ("f64::log2", "stubs::log2_table")]
    for b in [2, 3, 4, 7, 8]:
        for w, fn in enumerate(names):
            out.append(H("c13_pow_spec_%d_%s" % (b, fn), "C13", "c13::pow_narrow::<%d,%d>" % (b, w), unwind=b + 3,
                         tier="quick" if b in (3, 8) else "thorough", timeout=1800, stubs=MULSPEC,
                         inst="Uint<%d,%d>" % (b, nlimbs(b)), role="c13::pow_spec." + fn,
                         domain="every (base, exponent) pair of the width; compositional: overflowing_mul/wrapping_mul replaced "
                                "by their specification (decided against the real multipliers in C02 narrow_%d)" % b,
                         free_bits=2 * b, fns=[fn], covers_required=["overflows", "zero-to-zero"]))
    for b in [2, 3, 4]:   # 7/8 bits need unwinding 5 and more: 10 GB and growing (TryFrom<f64> recursion), not registered
        for w, fn in enumerate(["checked_log", "log", "log10"]):
            if w == 2 and b < 4:
                continue
            out.append(H("c13_log_narrow_%d_%s" % (b, fn), "C13", "c13::log_narrow::<%d,%d>" % (b, w), unwind=(4 if b <= 4 else 5),
                         tier="quick" if (b == 3 and w == 1) else "thorough", timeout=3600, stubs=[FMT] + MULSPEC + FLT,
                         inst="Uint<%d,1>" % b, role="c13::log_narrow." + fn,
                         domain="every (value, base) pair of the width; compositional: multipliers replaced by their specification, "
                                "f64::exp2/log2 by exact models on the integer arguments that occur (any other argument fails the harness)",
                         free_bits=2 * b, fns=[fn, "approx_log2", "TryFrom<f64>", "checked_pow"],
                         covers_required=(["at-max"] if w != 2 else [])))
    for b in [1, 2, 3, 4, 7, 8, 64, 65, 128, 250]:
        l = nlimbs(b)
        inst = "Uint<%d,%d>" % (b, l)
        tier = "quick" if b in (1, 3, 4, 8, 65, 250) else "thorough"
        out.append(H("c13_log2_fixed_%d" % b, "C13", "c13::log2_fixed::<%d,%d>" % (b, l), unwind=8 * l + 3, tier=tier,
                     inst=inst, timeout=900, stubs=[FMT], domain="FULL value", free_bits=b,
                     fns=["checked_log2", "log2"]))
        out.append(H("c13_log_zero_panics_%d" % b, "C13", "c13::log_fixed_zero_panics::<%d,%d>" % (b, l),
                     unwind=8 * l + 3, tier=tier, inst=inst, kind="never_returns", timeout=900, stubs=[FMT],
                     domain="value 0", free_bits=1, fns=["log2", "log10"]))
        if b < 4:
            out.append(H("c13_log10_tiny_%d" % b, "C13", "c13::log10_tiny::<%d,%d>" % (b, l), unwind=8 * l + 3,
                         tier="quick", inst=inst, timeout=900, stubs=[FMT], domain="FULL value", free_bits=b,
                         fns=["checked_log10", "log10"]))
    # generic-base log and root contain the float-seeded correction loops in the same function body: even the
    # inputs that return before them cost > 300 s above one bit (measured), so these run at one bit only
    for b in [1]:
        l = nlimbs(b)
        inst = "Uint<%d,%d>" % (b, l)
        tier = "quick"
        # (generic-base checked_log / log on their float-free inputs: > 400 s even at one bit once the
        #  early from(2) panic was repaired - not registered; the bodies stay in c13.rs)
        out.append(H("c13_root_degree0_%d" % b, "C13", "c13::root_degree_zero_panics::<%d,%d>" % (b, l),
                     unwind=8 * l + 3, tier=tier, inst=inst, kind="never_returns", timeout=600, stubs=[FMT],
                     domain="FULL value, degree 0", free_bits=b, fns=["root"]))
    return out
