"""C02 — multiplication."""
from plan import H, nlimbs

UF = [("ruint::algorithms::DoubleWord::mul", "uf::mul_stub"),
      ("ruint::algorithms::DoubleWord::muladd", "uf::muladd_stub"),
      ("ruint::algorithms::DoubleWord::muladd2", "uf::muladd2_stub")]
UFDOM = ("FULL operand pairs; 64x64->128 multiply abstracted as an uninterpreted function with axioms 0*x=0, 1*x=x, "
         "commutativity, functional consistency, x*y <= (2^64-1)^2, x*y >= max(x,y) for x,y >= 1")
INV_NARROW = [1, 2, 3, 7, 8]   # probed: seconds; 16 bits and above do not finish (five 64-bit Newton steps)
MIX = [("ruint::Uint::wrapping_mul", "stubs::wrapping_mul_mix"),
       ("ruint::Uint::overflowing_mul", "stubs::overflowing_mul_mix")]


def harnesses():
    out = []
    for b in [64, 65, 127, 128, 129, 192]:
        l = nlimbs(b)
        w = 2 * l + 1
        tier = "quick" if b in (64, 65, 128) else "thorough"
        inst = "Uint<%d,%d>" % (b, l)
        out.append(H("c02_overflowing_uf_%d" % b, "C02", "c02::overflowing_uf::<%d,%d,%d>" % (b, l, w), unwind=w + 2,
                     tier=tier, inst=inst, domain=UFDOM, free_bits=2 * b, stubs=UF, abstract=True,
                     fns=["overflowing_mul", "algorithms::addmul"], timeout=3600,
                     covers_required=["overflows", "fits-nonzero"]))
        out.append(H("c02_wrapping_uf_%d" % b, "C02", "c02::wrapping_uf::<%d,%d,%d>" % (b, l, w), unwind=w + 2,
                     tier=tier, inst=inst, domain=UFDOM, free_bits=2 * b, stubs=UF, abstract=True,
                     fns=["wrapping_mul", "algorithms::addmul_n"], timeout=3600))
    for (b1, b2) in [(64, 64), (65, 64), (64, 128), (128, 128), (129, 65)]:
        l1, l2 = nlimbs(b1), nlimbs(b2)
        br = b1 + b2
        lr = nlimbs(br)
        w = l1 + l2 + 1
        tier = "quick" if (b1, b2) in ((64, 64), (65, 64), (64, 128)) else "thorough"
        out.append(H("c02_widening_uf_%d_%d" % (b1, b2), "C02",
                     "c02::widening_uf::<%d,%d,%d,%d,%d,%d,%d>" % (b1, l1, b2, l2, br, lr, w), unwind=w + 2, tier=tier,
                     inst="Uint<%d,%d> x Uint<%d,%d> -> Uint<%d,%d>" % (b1, l1, b2, l2, br, lr), domain=UFDOM,
                     free_bits=b1 + b2, stubs=UF, abstract=True, fns=["widening_mul"], timeout=3600))
    for b in [0, 1, 7, 64, 65, 128, 250]:
        l = nlimbs(b)
        tier = "quick" if b in (0, 7, 65, 250) else "thorough"
        out.append(H("c02_glue_%d" % b, "C02", "c02::glue::<%d,%d>" % (b, l), unwind=max(l, 3) + 2, tier=tier,
                     inst="Uint<%d,%d>" % (b, l),
                     domain="FULL operands; the two multipliers replaced by tagged mixing functions "
                            "(forwarding/plumbing only)", free_bits=3 * b + 2, stubs=MIX, abstract=True,
                     fns=["checked_mul", "saturating_mul", "Mul", "MulAssign", "Product<Uint>", "Product<&Uint>"]))
    for b in [1, 2, 7, 8, 16]:   # (Uint<0,1> is ill-formed: width 0 is covered by the glue harness)
        out.append(H("c02_narrow_%d" % b, "C02", "c02::narrow::<%d>" % b, unwind=4,
                     tier="quick" if b in (1, 8, 16) else "thorough", inst="Uint<%d,%d>" % (b, nlimbs(b)),
                     domain="every operand pair of the width, real multipliers, oracle u64 arithmetic",
                     free_bits=2 * b, timeout=900,
                     fns=["overflowing_mul", "wrapping_mul", "checked_mul", "saturating_mul", "Mul", "DoubleWord::muladd2"]))
    for b in [0, 1, 7, 64, 65, 128, 250]:
        l = nlimbs(b)
        out.append(H("c02_inv_ring_even_%d" % b, "C02", "c02::inv_ring_even::<%d,%d>" % (b, l), unwind=l + 3,
                     tier="quick", inst="Uint<%d,%d>" % (b, l), domain="every even value (and BITS = 0)", free_bits=b,
                     fns=["inv_ring"], timeout=600))
    for b in INV_NARROW:
        out.append(H("c02_inv_ring_narrow_%d" % b, "C02", "c02::inv_ring_narrow::<%d>" % b, unwind=4, tier="quick",
                     inst="Uint<%d,1>" % b, domain="every value of the width", free_bits=b, fns=["inv_ring"], timeout=1200))
    # LATTICE harnesses with the real multipliers (c02::mul_lattice / widening_lattice, 3 free bits per limb) were probed at
    # 192/256 bits and 192x192, 256x128, 256x256: CBMC exhausts 14 GB after 9-10 min (16+16 full 64x64 multiplier circuits
    # next to addmul's symbolic slices) - not registered; the bodies stay in c02.rs
    SMALLDOM = ("unit-limb sub-domain: every limb of one operand 0 or 1, the other operand FULL, one harness per operand order; UF layer, "
                "exact on this sub-domain (all products fixed by the axioms 0*x = 0, 1*x = x)")
    # per operand order: 128 bits quick, 192 bits 340-440 s; 256 bits (4 limbs): unit operand on the left 2390 s, on the right no
    # result in 2400 s; 250/320/512: none in 1500 s (both orders in one harness)
    for b, tier, orders in [(128, "quick", (0, 1)), (192, "thorough", (0, 1)), (256, "thorough", (0,))]:
        l = nlimbs(b)
        w = 2 * l + 1
        for sw in orders:
            out.append(H("c02_mul_unit_%d_%s" % (b, "ba" if sw else "ab"), "C02", "c02::mul_unit::<%d,%d,%d,%d>" % (b, l, w, sw),
                         unwind=w + 2, tier=tier, inst="Uint<%d,%d>" % (b, l), domain=SMALLDOM, free_bits=b + l, timeout=7200, stubs=UF,
                         fns=["overflowing_mul", "wrapping_mul", "algorithms::addmul", "algorithms::addmul_n"],
                         role="c02::mul_unit", covers_required=["overflows", "fits-nonzero"]))
    for (b1, b2), tier in [((192, 192), "quick")]:   # 256x256: no result in 1500 s (probe)
        l1, l2 = nlimbs(b1), nlimbs(b2)
        br = b1 + b2
        lr = nlimbs(br)
        w = l1 + l2 + 1
        out.append(H("c02_widening_unit_%d_%d" % (b1, b2), "C02",
                     "c02::widening_unit::<%d,%d,%d,%d,%d,%d,%d>" % (b1, l1, b2, l2, br, lr, w), unwind=w + 2, tier=tier,
                     inst="Uint<%d,%d> x Uint<%d,%d> -> Uint<%d,%d>" % (b1, l1, b2, l2, br, lr), domain=SMALLDOM,
                     free_bits=b2 + l1, fns=["widening_mul", "algorithms::addmul"], timeout=3600, stubs=UF))
    # (FULL-domain UF at 4-limb shapes of the generic trimming addmul - overflowing_mul 256, widening 192x192 - gave no verdict in
    #  a 30-minute background run: not registered)
    b = 256
    l = nlimbs(b)
    w = 2 * l + 1
    out.append(H("c02_wrapping_uf_%d" % b, "C02", "c02::wrapping_uf::<%d,%d,%d>" % (b, l, w), unwind=w + 2,
                 tier="thorough", inst="Uint<256,4>", domain=UFDOM, free_bits=2 * b, stubs=UF, abstract=True,
                 fns=["wrapping_mul", "algorithms::addmul_n (addmul_4)"], timeout=3600))
    return out
