"""C04 — canonical values; ==, Hash, Ord."""
from plan import H, nlimbs, nbytes

QUICK = [0, 1, 7, 64, 65, 128, 250]
ALL = [0, 1, 2, 7, 8, 63, 64, 65, 127, 128, 129, 192, 250, 256]
NONAL = [1, 7, 63, 65, 127, 129, 250]


def harnesses():
    out = []
    for b in ALL:
        l = nlimbs(b)
        tier = "quick" if b in QUICK else "thorough"
        inst = "Uint<%d,%d>" % (b, l)
        un = l + 2
        out.append(H("c04_order_%d" % b, "C04", "c04::order::<%d,%d>" % (b, l), unwind=max(8 * l + 3, 10), tier=tier, inst=inst,
                     domain="FULL pairs", free_bits=2 * b, covers_required=(["less"] if b else []) + ["equal"],
                     fns=["PartialEq", "Ord::cmp", "PartialOrd", "min", "max", "is_zero", "Hash"]))
        out.append(H("c04_constants_%d" % b, "C04", "c04::constants::<%d,%d>" % (b, l), unwind=un, tier=tier,
                     inst=inst, domain="constants (one symbolic limb index)", free_bits=4,
                     fns=["ZERO", "ONE", "MIN", "MAX", "default", "BITS", "LIMBS", "MASK", "BYTES"]))
        out.append(H("c04_from_limbs_ok_%d" % b, "C04", "c04::from_limbs_ok::<%d,%d>" % (b, l), unwind=un, tier=tier,
                     inst=inst, domain="every canonical limb array", free_bits=b, fns=["from_limbs", "into_limbs", "as_limbs"]))
        if b % 64 != 0:
            out.append(H("c04_from_limbs_bad_%d" % b, "C04", "c04::from_limbs_bad::<%d,%d>" % (b, l), unwind=un,
                         tier=tier, inst=inst, kind="never_returns", domain="every non-canonical limb array",
                         free_bits=64 * l, fns=["from_limbs"]))
        out.append(H("c04_closure_%d" % b, "C04", "c04::closure::<%d,%d>" % (b, l), unwind=8 * l + 3, tier=tier,
                     inst=inst, domain="FULL operands, any usize amount/index", free_bits=2 * b + 65,
                     fns=["saturating_add", "saturating_sub", "abs_diff", "wrapping_neg", "Not", "BitXor",
                          "saturating_shl", "arithmetic_shr", "reverse_bits", "min", "max", "set_bit",
                          "checked_next_power_of_two", "saturating_from", "wrapping_from"], timeout=600))
    for b in NONAL + [0, 64]:
        l, nb = nlimbs(b), nbytes(b)
        tier = "quick" if b in (1, 7, 65, 250, 0) else "thorough"
        inst = "Uint<%d,%d>" % (b, l)
        out.append(H("c04_rand_%d" % b, "C04", "c04::rand_generators::<%d,%d>" % (b, l), unwind=8 * l + 3, tier=tier,
                     inst=inst, domain="nondeterministic RngCore: every output word/byte arbitrary",
                     free_bits=4 * 64 * max(l, 1), timeout=600,
                     fns=["Distribution<Uint> for Standard (rand 0.8)", "StandardUniform (rand 0.9)", "random_with",
                          "randomize_with"]))
        nx = nb + 2
        out.append(H("c04_arbitrary_%d" % b, "C04", "c04::arbitrary_generator::<%d,%d,%d>" % (b, l, nx),
                     unwind=max(nx, 9) + 2, tier=tier, inst=inst, timeout=600,
                     domain="Unstructured over any byte string of symbolic length 0..=BYTES+2", free_bits=8 * nx + 4,
                     fns=["arbitrary::Arbitrary::arbitrary"]))
    for b in [2, 7, 8]:
        out.append(H("c04_closure_narrow_%d" % b, "C04", "c04::closure_narrow::<%d>" % b, unwind=4, tier="quick",
                     inst="Uint<%d,1>" % b, domain="every operand pair of the width", free_bits=2 * b, timeout=900,
                     fns=["inv_ring", "wrapping_mul", "saturating_mul", "overflowing_mul"]))
    for b in [7, 8, 65, 127]:
        l, nb = nlimbs(b), nbytes(b)
        for w, wn in enumerate(["digits", "text", "bytes"]):
            if wn == "text":
                continue   # from_str_radix under a symbolic radix: 6-9 GB and no verdict in 600 s at 8 bits; C09's parse harnesses decide its values
            out.append(H("c04_closure_decoders_%d_%s" % (b, wn), "C04", "c04::closure_decoders::<%d,%d,%d,%d>" % (b, l, nb + 1, w),
                         unwind=max(nb + 4, 8), tier="quick" if b in (8, 65) else "thorough",
                         inst="Uint<%d,%d>" % (b, l), stubs=[("alloc::fmt::format", "stubs::format_stub")], timeout=1800,
                         role="c04::closure_decoders." + wn,
                         domain=["u64 digit strings of symbolic length 0..=3 in base 3/10/1000/2^32 (LE and BE), 2-limb slices",
                                 "ASCII strings of symbolic length 0..=3 in radix 10/36",
                                 "byte slices of symbolic length 0..=BYTES+1"][w], free_bits=[64 * 3 + 4, 23, 8 * (nb + 1) + 4][w],
                         fns=[["from_base_be", "from_base_le", "checked_from_limbs_slice"], ["from_str_radix"],
                              ["try_from_be_slice", "try_from_le_slice"]][w], covers_required=["accepts"]))
    return out
