"""C03 — division at the Uint API."""
from plan import H, nlimbs

PIN = [("ruint::algorithms::div::div_nx1", "stubs::pinned_div_nx1"),
       ("ruint::algorithms::div::div_nx2", "stubs::pinned_div_nx2"),
       ("ruint::algorithms::div::div_nxm", "stubs::pinned_div_nxm")]


MULTI_OK = {"128_2x1"}   # measured: 2106 s; 3x1/4x3 kernels did not finish in 3000 s   # filled in from measured probes


def pin_except(keep):
    return [p for p in PIN if not p[0].endswith(keep)]


def harnesses():
    out = []
    groups = ["div_rem+wrapping+checked", "Div operators", "Rem operators", "div_ceil", "checked_next_multiple_of",
              "next_multiple_of"]
    gfns = [["div_rem", "wrapping_div", "wrapping_rem", "checked_div", "checked_rem"], ["Div", "DivAssign"],
            ["Rem", "RemAssign"], ["div_ceil"], ["checked_next_multiple_of"], ["next_multiple_of"]]
    # FULL 63/64-bit operands do not finish (each native `/` becomes its own divider circuit with a free
    # quotient: > 300 s per group, measured): single-limb claims are at narrow widths only
    for b in [1, 2, 7, 8]:
        for w in range(6):
            if b in (7, 8) and w >= 4:
                continue   # next_multiple_of groups at 7/8 bits: > 300 s each and not probed to completion - not registered
            tier = "quick" if ((b in (1, 8) and w < 4) or b == 2) else "thorough"
            out.append(H("c03_single_%d_g%d" % (b, w), "C03", "c03::single::<%d,%d>" % (b, w), unwind=12, tier=tier,
                         timeout=1200 if tier == "quick" else 3600, inst="Uint<%d,1> (%s)" % (b, groups[w]), stubs=PIN, role="c03::single.g%d" % w,
                         domain="FULL (n, d), d != 0; slice kernels pinned unreachable; oracle native u64 / % "
                                "(plus q*d+r = n, r < d for BITS <= 16)", free_bits=2 * b,
                         fns=gfns[w] + ["algorithms::div"]))
    for b in [2]:
        if b == 1:
            continue  # at one bit d = 1 divides everything: no overflowing multiple exists
        out.append(H("c03_next_multiple_overflow_%d" % b, "C03", "c03::next_multiple_overflow_panics::<%d>" % b,
                     unwind=12, tier="quick" if b == 2 else "thorough", timeout=3600, inst="Uint<%d,1>" % b, stubs=PIN, kind="never_returns",
                     domain="every (n, d) whose next multiple does not fit", free_bits=2 * b, fns=["next_multiple_of"]))
    for b in [0, 1, 64, 65, 128, 250]:
        l = nlimbs(b)
        out.append(H("c03_zero_checked_%d" % b, "C03", "c03::zero_checked::<%d,%d>" % (b, l), unwind=l + 3,
                     tier="quick", inst="Uint<%d,%d>" % (b, l), domain="FULL numerator, divisor zero", free_bits=b,
                     fns=["checked_div", "checked_rem", "checked_next_multiple_of"], timeout=600))
        out.append(H("c03_zero_panics_%d" % b, "C03", "c03::zero_panics::<%d,%d>" % (b, l), unwind=l + 3,
                     tier="quick", inst="Uint<%d,%d>" % (b, l), kind="never_returns", stubs=PIN, timeout=600,
                     domain="FULL numerator, divisor zero, panicking form symbolic", free_bits=b + 3,
                     fns=["div_rem", "Div", "Rem", "wrapping_div", "wrapping_rem", "div_ceil", "next_multiple_of",
                          "DivAssign"]))
    # multi-limb shapes through the public API (kernel expected by shape; the other two pinned).
    # Registered only once a probe has shown that they finish: see MULTI_OK.
    shapes = [x for x in [
        ("128_2x1", 128, 1, 2, 0x5, "div_nx1", "thorough"),
        ("128_2x2", 128, 2, 1, 0x82, "div_nx2", "thorough"),
        ("192_3x3", 192, 3, 1, 0x512, "div_nxm", "thorough"),
        ("256_4x3", 256, 3, 2, 0x822, "div_nxm", "thorough"),
    ] if x[0] in MULTI_OK]
    for (name, b, ndl, nq, dc, keep, tier) in shapes:
        l = nlimbs(b)
        out.append(H("c03_multi_%s" % name, "C03", "c03::multi::<%d,%d,%d,%d,%d>" % (b, l, ndl, nq, dc),
                     unwind=l + 4, tier=tier, timeout=7200, inst="Uint<%d,%d>, divisor %d limbs (codes %x)" % (b, l, ndl, dc),
                     stubs=pin_except(keep), role="c03::multi." + keep,
                     domain="LATTICE: divisor limbs by code, %d pattern quotient limb(s), remainder small or d-1-small; "
                            "n = q*d + r built exactly; only %s expected, other kernels pinned unreachable" % (nq, keep),
                     free_bits=10 * nq + 9 + 8 * ndl, fns=["div_rem", "algorithms::div", keep]))
    return out
