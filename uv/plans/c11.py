"""C11 — Montgomery multiplication (narrow claim)."""
from plan import H


def harnesses():
    return [H("c11_redc1", "C11", "c11::redc1::<0>", unwind=8, tier="quick", timeout=3600, inst="mul_redc::<1>, square_redc::<1>, Uint<64,1>",
              domain="LATTICE: m = {2^62-32, 2^62, 2^63-32, 2^63, 2^64-32} + 2x+1 (x 2 free bits: below, at and above both "
                     "carry thresholds), a and b = small(2 bits) or m-1-small; inv by an independent Newton iteration; "
                     "oracle: a*b + k*m = r*2^64 (+ m*2^64), k = a*b*inv mod 2^64, r < m", free_bits=11,
              fns=["algorithms::mul_redc", "algorithms::square_redc", "Uint::mul_redc", "Uint::square_redc"],
              covers_required=["subtract-taken", "extra-carry"]),
            H("c11_redc1_square_uint", "C11", "c11::redc1::<1>", unwind=8, tier="thorough", timeout=3600,
              inst="mul_redc::<1>, square_redc::<1>, Uint<64,1>::{mul_redc, square_redc}",
              domain="same lattice; additionally square_redc against its own definition and the Uint methods against "
                     "the slice-level results", free_bits=11,
              fns=["algorithms::mul_redc", "algorithms::square_redc", "Uint::mul_redc", "Uint::square_redc"]),
            H("c11_redc1_small_mul_5", "C11", "c11::redc1_small::<0,5>", unwind=8, tier="quick", timeout=3600, inst="mul_redc::<1>",
              domain="every odd modulus 3..=31 (composite ones included), every a, b < m; inv from a compile-time table (checked by "
                     "the library's own debug assertion); oracle: r < m and r * 2^64 = a * b (mod m)", free_bits=14,
              fns=["algorithms::mul_redc"], role="c11::redc1_small", covers_required=["zero-divisors"]),
            H("c11_redc1_small_mul_6", "C11", "c11::redc1_small::<0,6>", unwind=8, tier="quick", timeout=3600, inst="mul_redc::<1>",
              domain="every odd modulus 3..=63, every a, b < m",
              free_bits=17, fns=["algorithms::mul_redc"], role="c11::redc1_small", covers_required=["zero-divisors"]),
            H("c11_redc1_small_mul_7", "C11", "c11::redc1_small::<0,7>", unwind=8, tier="thorough", timeout=3600, inst="mul_redc::<1>",
              domain="every odd modulus 3..=127, every a, b < m (8-bit moduli, 24 free bits, did not finish in 1500 s)",
              free_bits=20, fns=["algorithms::mul_redc"], role="c11::redc1_small", covers_required=["zero-divisors"]),
            H("c11_redc2_diff", "C11", "c11::redc2_diff", unwind=8, tier="quick", timeout=3600, inst="mul_redc::<2>, square_redc::<2>",
              domain="N = 2 LATTICE (14 free bits): m = [2^64-1-2x, w], a = [w, w] < m with every w one of {0, 2^62, 2^63, 2^64-1} +/- a 2-bit "
                     "offset; differential oracle square_redc(a) = mul_redc(a, a), result < m", free_bits=14,
              fns=["algorithms::mul_redc", "algorithms::square_redc"], role="c11::redc2_diff",
              covers_required=["top-limb-high", "top-limb-low"]),
            H("c11_redc1_small_square", "C11", "c11::redc1_small::<1,8>", unwind=8, tier="quick", timeout=3600,
              inst="square_redc::<1>", domain="every odd modulus 3..=255, every a < m; oracle: r < m and r * 2^64 = a * a (mod m)",
              free_bits=15, fns=["algorithms::square_redc"], role="c11::redc1_small", covers_required=["zero-divisors"])]
