"""C11 — Montgomery multiplication (narrow claim)."""
from plan import H


def harnesses():
    return [H("c11_redc1", "C11", "c11::redc1::<0>", unwind=8, tier="quick", timeout=3600, inst="mul_redc::<1>, square_redc::<1>, Uint<64,1>",
              domain="LATTICE: m = {2^62-32, 2^62, 2^63-32, 2^63, 2^64-32} + 2x+1 (x 2 free bits: below, at and above both "
                     "carry thresholds), a and b = small(2 bits) or m-1-small; inv by an independent Newton iteration; "
                     "oracle: a*b + k*m = r*2^64 (+ m*2^64), k = a*b*inv mod 2^64, r < m", free_bits=11,
              fns=["algorithms::mul_redc", "algorithms::square_redc", "Uint::mul_redc", "Uint::square_redc"],
              covers_required=["subtract-taken", "extra-carry"]),
            H("c11_redc1_square_uint", "C11", "c11::redc1::<1>", unwind=8, tier="thorough", timeout=3600,
              inst="mul_redc::<1>, square_redc::<1>, Uint<64,1>::{mul_redc, square_redc}",
              domain="same lattice; additionally square_redc against its own definition and the Uint methods against "
                     "the slice-level results", free_bits=11,
              fns=["algorithms::mul_redc", "algorithms::square_redc", "Uint::mul_redc", "Uint::square_redc"])]
