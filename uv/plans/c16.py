"""C16 — codec round-trip and reference encodings."""
from plan import H, nlimbs, nbytes

FMT = ("alloc::fmt::format", "stubs::format_stub")
ALL = [0, 1, 7, 8, 16, 60, 64, 65, 72, 128]
QUICK = [0, 8, 64, 65]
RLP_OK = []   # rlp crate encoder: > 300 s at 8 bits in a probe and no result in the thorough validation run - not registered
NUMERIC_OK = []   # NUMERIC round trip at 16 bits: unwinding of the digit loops not decided in 500 s - not registered


def harnesses():
    out = []
    for b in ALL:
        l, nb = nlimbs(b), nbytes(b)
        tier = "quick" if b in QUICK else "thorough"
        inst = "Uint<%d,%d>" % (b, l)
        no = nb + 3
        un = max(no + 2, 18)

        def add(name, body, fns, **kw):
            out.append(H("c16_%s_%d" % (name, b), "C16", body, unwind=kw.pop("unwind", un), tier=kw.pop("tier", tier),
                         inst=inst, domain=kw.pop("domain", "FULL value, one symbolic byte position"),
                         free_bits=b + 8, fns=fns, role="c16::" + name, stubs=[FMT], timeout=kw.pop("timeout", 1200), **kw))

        for crate in ("alloy_rlp", "fastrlp_03", "fastrlp_04"):
            add(crate, "c16::%s::<%d,%d,%d>" % (crate, b, l, no), [crate + "::Encodable::{encode,length}", crate + "::Decodable::decode"])
        if b in RLP_OK:
            # RlpStream is heavy for CBMC (> 300 s at 8 bits): thorough tier, two widths
            add("rlp", "c16::rlp::<%d,%d,%d>" % (b, l, no), ["rlp::Encodable", "rlp::Decodable"], tier="thorough", timeout=3600)
        add("ssz_borsh", "c16::ssz_borsh::<%d,%d,%d>" % (b, l, nb),
            ["ssz::Encode", "ssz::Decode", "BorshSerialize", "BorshDeserialize"])
        add("scale_fixed", "c16::scale_fixed::<%d,%d,%d>" % (b, l, nb),
            ["parity_scale_codec::{Encode, Decode, MaxEncodedLen}"])
        add("scale_compact", "c16::scale_compact::<%d,%d,%d>" % (b, l, no), ["Encode for CompactRefUint (size_hint, encode)"],
            covers_required=(["big-integer-mode"] if b > 30 else []))
        add("der", "c16::der::<%d,%d,%d>" % (b, l, no), ["der::Encode::encode_to_slice", "EncodeValue::value_len"])
        add("serde_binary", "c16::serde_binary::<%d,%d,%d,%d>" % (b, l, nb, nb + 1),
            ["Serialize (binary form)", "Deserialize (binary visitor)"])
        if b in (8, 16, 65):
            for t, tn in enumerate(["bool", "int2", "int4", "int8", "oid", "money", "bytea", "bit", "varbit", "numeric"]):
                if tn == "numeric" and b not in NUMERIC_OK:
                    continue
                add("pg_roundtrip_" + tn, "c16::pg_roundtrip::<%d,%d,%d>" % (b, l, t),
                    ["ToSql::to_sql(%s)" % tn.upper(), "FromSql::from_sql(%s)" % tn.upper()],
                    tier="quick" if (b == 16 and tn != "numeric") else "thorough", timeout=3600, domain="FULL value; the round trip is asserted whenever to_sql succeeds",
                    covers_required=["encodes"])
    # the 55/56-byte short/long string boundary of RLP needs a width of at least 441 bits (seeded change C16-4)
    for b in []:   # [448]: probed - every instance exceeds the 14 GB limit within 150 s (59-byte buffers, unwinding 61) - not registered
        l, nb = nlimbs(b), nbytes(b)
        no = nb + 3
        for crate in ("alloy_rlp", "fastrlp_03", "fastrlp_04"):
            out.append(H("c16_%s_%d" % (crate, b), "C16", "c16::%s::<%d,%d,%d>" % (crate, b, l, no), unwind=no + 2, tier="thorough",
                         inst="Uint<%d,%d>" % (b, l), domain="FULL value, one symbolic byte position (55- and 56-byte payloads: "
                         "short and long string headers)", free_bits=b + 8, fns=[crate + "::Encodable::{encode,length}", crate + "::Decodable::decode"],
                         role="c16::" + crate, stubs=[FMT], timeout=7200))
    for (b, ndg, rt, tier, to) in [(16, 2, 0, "quick", 1200), (16, 2, 1, "thorough", 3600), (32, 3, 0, "thorough", 3600)]:
        out.append(H("c16_pg_numeric_enc_%d%s" % (b, "_rt" if rt else ""), "C16", "c16::pg_numeric_enc::<%d,%d,%d>" % (b, ndg, rt),
                     unwind=ndg + 4, tier=tier, timeout=to, inst="Uint<%d,1>" % b, stubs=[FMT], role="c16::pg_numeric_enc",
                     domain="every value of the width, built from %d symbolic base-10000 digits (constructive oracle); "
                            "one symbolic byte position" % ndg, free_bits=16 * ndg + 8,
                     fns=["ToSql::to_sql(NUMERIC)", "to_base_be"] + (["FromSql::from_sql(NUMERIC)"] if rt else []),
                     covers_required=["trailing-zero-digit", "zero"]))
    out.append(H("c16_primitive_types", "C16", "c16::primitive_types", unwind=40, tier="quick", timeout=1200,
                 inst="U128, U256, B128, B256 <-> primitive_types::{U128, U256, H128, H256}", stubs=[FMT],
                 domain="FULL values, one symbolic byte position", free_bits=128 + 256 + 5,
                 fns=["From<primitive_types::U*> / From<Uint>", "From<H*> for Bits / From<Bits> for H*"]))
    out.append(H("c16_bytemuck_pod", "C16", "c16::bytemuck_pod", unwind=20, tier="quick", timeout=1200,
                 inst="Uint<128,2> (Pod), Uint<65,2> (Zeroable)", stubs=[FMT], domain="FULL value, one symbolic byte position",
                 free_bits=132, fns=["bytemuck::Pod", "bytemuck::Zeroable"]))
    for b in [264, 512]:
        l = nlimbs(b)
        out.append(H("c16_scale_compact_hint_%d" % b, "C16", "c16::scale_compact_hint::<%d,%d>" % (b, l), unwind=l + 3,
                     tier="quick" if b == 264 else "thorough", inst="Uint<%d,%d>" % (b, l), domain="FULL value",
                     free_bits=b, fns=["Encode::size_hint for CompactRefUint"], stubs=[FMT], timeout=900,
                     role="c16::scale_compact_hint"))
    return out
