"""C17 — decoders total on untrusted input."""
from plan import H, nlimbs, nbytes

QUICK = [0, 12, 60, 65]
HEAVYQ = [12]   # scale_fixed, pg_bit, pg_varbit, der_value cost 50-380 s each: one width in the quick tier (the 65-bit ones pushed
                # the quick command past 900 s on a loaded machine in `vp check`)
ALL = [0, 1, 7, 8, 12, 16, 60, 64, 65, 72, 120]
PG = {0: "BOOL", 1: "INT2", 2: "INT4", 3: "INT8", 4: "OID", 5: "MONEY", 6: "BYTEA", 7: "BIT", 8: "VARBIT"}
FMT = ("alloc::fmt::format", "stubs::format_stub")
PGTEXT = {12: "TEXT", 13: "VARCHAR", 14: "CHAR", 15: "JSON", 16: "JSONB"}


def harnesses():
    out = []
    for b in ALL:
        l, nb = nlimbs(b), nbytes(b)
        inst = "Uint<%d,%d>" % (b, l)
        for (k, base_tier) in ((3, "quick"), (8, "thorough")):
            tier = base_tier if b in QUICK else "thorough"
            nx = nb + k
            un = max(nx + 2, 18)  # fastrlp 0.3 header parsing pads to 8 bytes; 65-bit type needed > 14
            dom = "any byte string of symbolic length 0..=BYTES+%d" % k
            fb = 8 * nx + 8
            sfx = "%d_p%d" % (b, k)

            def add(name, body, fns, **kw):
                kw["stubs"] = kw.get("stubs", []) + [FMT]
                out.append(H("c17_%s_%s" % (name, sfx), "C17", body, unwind=kw.pop("unwind", un), tier=kw.pop("tier", tier),
                             inst=inst, domain=kw.pop("domain", dom), free_bits=fb, fns=fns,
                             role="c17::" + name, **kw))

            for crate in ("alloy_rlp", "fastrlp_03", "fastrlp_04"):
                add(crate, "c17::%s::<%d,%d,%d>" % (crate, b, l, nx), [crate + "::Decodable::decode", crate + "::Encodable::encode"],
                    covers_required=["accepts", "rejects"])
            add("rlp", "c17::rlp::<%d,%d,%d>" % (b, l, nx), ["rlp::Decodable::decode"], covers_required=["accepts"])
            add("ssz", "c17::ssz::<%d,%d,%d,%d>" % (b, l, nb, nx), ["ssz::Decode::from_ssz_bytes"], covers_required=["accepts"])
            add("borsh", "c17::borsh::<%d,%d,%d,%d>" % (b, l, nb, nx), ["BorshDeserialize::deserialize"], covers_required=["accepts"])
            ht = tier if b in HEAVYQ else "thorough"
            add("scale_fixed", "c17::scale_fixed::<%d,%d,%d,%d>" % (b, l, nb, nx), ["parity_scale_codec::Decode::decode"],
                covers_required=["accepts"], tier=ht, timeout=1200)
            # (1 and 7 bits - narrower than the single-byte mode's six payload bits, seeded change C17-4 - were probed against the
            #  patched tree: no verdict after 35 min, 13 GB; not registered)
            if b in (8, 16) and k == 3:
              # 520 s at 8 bits: the big-integer arm builds Vecs of symbolic size and a Uint<536,9>
              add("scale_compact", "c17::scale_compact::<%d,%d,%d>" % (b, l, nx), ["Decode for Compact<Uint>"],
                covers_required=["accepts"], abstract=True, tier="thorough", timeout=3600,
                stubs=[("ruint::Uint::from_limbs_slice", "stubs::from_limbs_slice_any")])
            add("der_value", "c17::der_value::<%d,%d,%d>" % (b, l, nx), ["der::DecodeValue::decode_value"],
                covers_required=["accepts"], tier=ht, timeout=1200)
            add("der_refs", "c17::der_refs::<%d,%d,%d>" % (b, l, nx), ["TryFrom<IntRef>", "TryFrom<UintRef>"])
            add("serde_bytes", "c17::serde_bytes::<%d,%d,%d,%d>" % (b, l, nb, nx), ["Deserialize (binary visitor)"],
                covers_required=["accepts"])
            for t, tn in PG.items():
                # integer column types do not depend on the input cap: one size is enough
                if t <= 5 and k != 3:
                    continue
                nxx = max(nx, 9) if t <= 5 else (nx + 4 if t in (7, 8) else nx)
                add("pg_" + tn.lower(), "c17::pg::from_sql::<%d,%d,%d,%d>" % (b, l, nxx, t),
                    ["FromSql::from_sql(%s)" % tn], unwind=nxx + 2,
                    domain="any raw value of symbolic length 0..=%d" % nxx,
                    **({"tier": ht, "timeout": 1200} if t in (7, 8) else {}),
                    covers_required=["rejects"] + (["accepts"] if not (t == 7 and b == 0) else []))
        tier = "quick" if b in QUICK else "thorough"
        out.append(H("c17_serde_ints_%d" % b, "C17", "c17::serde_ints::<%d,%d>" % (b, l), unwind=l + 2, tier=tier,
                     inst=inst, domain="every u64 / u128 handed to the human-readable visitor", free_bits=129,
                     fns=["Deserialize (visit_u64, visit_u128)"], stubs=[FMT]))
        if b in (8, 16):
          # NUMERIC runs base-10^4 Horner through the generic multiplier: 10+ min per width, thorough only
          out.append(H("c17_pg_numeric_%d" % b, "C17", "c17::pg::numeric::<%d,%d,12>" % (b, l), unwind=24, tier="thorough",
                     inst=inst, domain="any raw NUMERIC value of symbolic length 0..=12 (header + 2 digits)",
                     free_bits=8 * 12 + 8, fns=["FromSql::from_sql(NUMERIC)"], timeout=3600, stubs=[FMT]))
        if b in (0, 8, 16):
            for t, tn in PGTEXT.items():
                out.append(H("c17_pg_%s_%d" % (tn.lower(), b), "C17", "c17::pg::text::<%d,%d,3,%d>" % (b, l, t),
                             unwind=8, tier="thorough", inst=inst, domain="any raw text value of length 0..=3",
                             free_bits=32, fns=["FromSql::from_sql(%s)" % tn], timeout=1800))
    return out
