"""C12 — gcd / lcm / extended gcd / Lehmer matrix (narrow widths)."""
from plan import H

PIN = [("ruint::algorithms::div::div_nx1", "stubs::pinned_div_nx1"),
       ("ruint::algorithms::div::div_nx2", "stubs::pinned_div_nx2"),
       ("ruint::algorithms::div::div_nxm", "stubs::pinned_div_nxm"),
       ("ruint::algorithms::LehmerMatrix::from_u128_prefix", "stubs::pinned_from_u128_prefix")]


def UNW(b):
    # from_u64's loop makes two division steps per iteration; Euclid on b-bit operands needs at most
    # {1:1, 2:2, 3:4, 4:5, 5:7, 6:8, 8:12} steps (consecutive Fibonacci numbers)
    return {1: 3, 2: 3, 3: 4, 4: 5, 5: 6, 6: 6, 8: 8}[b]
FNS = {"gcd": ["gcd", "algorithms::gcd", "LehmerMatrix::from", "LehmerMatrix::from_u64", "LehmerMatrix::apply"],
       "lcm": ["lcm", "gcd", "checked_div", "checked_mul"],
       "gcd_extended": ["gcd_extended", "algorithms::gcd_extended", "LehmerMatrix::from_u64", "LehmerMatrix::apply"],
       "matrix": ["LehmerMatrix::from", "LehmerMatrix::from_u64", "LehmerMatrix::apply"]}
COV = {"gcd": ["coprime", "common-factor"], "lcm": ["lcm-overflows", "lcm-fits"], "gcd_extended": ["sign-true", "sign-false"],
       "matrix": ["identity", "progress"]}


def harnesses():
    out = []
    # probed in a background run (4 jobs, shared machine): every function at 1-4 bits (40-500 s); at 5/6/8 bits matrix 90-230 s,
    # gcd 633 s (5 bits) and 1569 s (8), lcm 851 s (5), gcd_extended 855 s (5); lcm at 6 bits 2235 s, gcd_extended at 8 bits out of
    # memory - only what finished comfortably is registered
    KEEP = {"gcd": [1, 2, 3, 4, 5, 8], "lcm": [1, 2, 3, 4, 5], "gcd_extended": [1, 2, 3, 4, 5], "matrix": [1, 2, 3, 4, 5, 6, 8]}
    for b in [1, 2, 3, 4, 5, 6, 8]:
        for fn in ["gcd", "lcm", "gcd_extended", "matrix"]:
            if b not in KEEP[fn]:
                continue
            cov = [c for c in COV[fn] if not (b == 1 and c in ("coprime", "common-factor", "lcm-overflows", "lcm-fits", "sign-true"))]
            if b == 2:
                cov = [c for c in cov if c not in ("common-factor", "lcm-fits")]
            out.append(H("c12_%s_narrow_%d" % (fn, b), "C12", "c12::%s_narrow::<%d>" % (fn, b), unwind=UNW(b),
                         tier="quick" if b in (1, 3) else "thorough", timeout=3600, inst="Uint<%d,1>" % b, stubs=PIN,
                         role="c12::" + fn, domain="every operand pair of the width; real code; slice division kernels "
                         "pinned unreachable; oracle: Euclid on u8", free_bits=2 * b, fns=FNS[fn], covers_required=cov))
    return out
