"""C01 — add / sub / neg."""
from plan import H, nlimbs

QUICK = [0, 1, 7, 63, 64, 65, 128, 250]
ALL = [0, 1, 2, 7, 8, 63, 64, 65, 127, 128, 129, 192, 250, 256, 320, 512]


def harnesses():
    out = []
    for b in ALL:
        l = nlimbs(b)
        tier = "quick" if b in QUICK else "thorough"
        inst = "Uint<%d,%d>" % (b, l)
        un = l + 2
        out.append(H("c01_methods_%d" % b, "C01", "c01::methods::<%d,%d>" % (b, l), unwind=un, tier=tier, inst=inst,
                     domain="FULL: all pairs (a, b) of %d-bit values" % b, free_bits=2 * b,
                     fns=["overflowing_add", "wrapping_add", "checked_add", "saturating_add", "overflowing_sub",
                          "wrapping_sub", "checked_sub", "saturating_sub", "overflowing_neg", "wrapping_neg",
                          "checked_neg", "abs_diff"],
                     covers_required=(["add-overflows", "add-fits"] if b > 0 else [])))
        out.append(H("c01_operators_%d" % b, "C01", "c01::operators::<%d,%d>" % (b, l), unwind=un, tier=tier,
                     inst=inst, domain="FULL: all pairs (a, b)", free_bits=2 * b,
                     fns=["Add", "AddAssign", "Sub", "SubAssign", "Neg (value, reference)"]))
        out.append(H("c01_sums_%d" % b, "C01", "c01::sums::<%d,%d>" % (b, l), unwind=max(un, 5), tier=tier,
                     inst=inst, domain="FULL: all triples, symbolic element count 0..=3", free_bits=3 * b + 2,
                     fns=["Sum<Uint>", "Sum<&Uint>"]))
    return out
