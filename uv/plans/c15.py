"""C15 — limb-slice kernels."""
from plan import H

UF = [("ruint::algorithms::DoubleWord::mul", "uf::mul_stub"),
      ("ruint::algorithms::DoubleWord::muladd", "uf::muladd_stub"),
      ("ruint::algorithms::DoubleWord::muladd2", "uf::muladd2_stub")]
EXTRA_SHAPES = set()   # (4, 3, 3) - both operands 3 limbs with two full rows - did not finish in 3000 s
UFDOM = ("FULL limb contents; 64x64->128 multiply abstracted as an uninterpreted function with axioms 0*x=0, 1*x=x, "
         "commutativity, functional consistency, x*y <= (2^64-1)^2, x*y >= max(x,y) for x,y >= 1 (implementation and reference share it)")


def harnesses():
    out = []
    for n in range(0, 7):
        tier = "quick" if n <= 4 else "thorough"
        out.append(H("c15_addsub_%d" % n, "C15", "c15::addsub::<%d>" % n, unwind=n + 2, tier=tier,
                     inst="slices of %d limbs" % n, domain="FULL contents, any carry/borrow word", free_bits=128 * n + 65,
                     fns=["adc_n", "sbb_n", "add_nx1", "cmp", "adc", "sbb", "carrying_add", "borrowing_sub"]))
        out.append(H("c15_shifts_%d" % n, "C15", "c15::shifts::<%d>" % n, unwind=n + 2, tier=tier,
                     inst="slices of %d limbs" % n, domain="FULL contents x shift amount 1..=63", free_bits=64 * n + 6,
                     fns=["shift_left_small", "shift_right_small"]))
    for n in range(0, 5):
        tier = "quick" if n <= 2 else "thorough"
        out.append(H("c15_nx1_uf_%d" % n, "C15", "c15::nx1_uf::<%d,%d>" % (n, n + 1), unwind=n + 3, tier=tier,
                     inst="slices of %d limbs" % n, domain=UFDOM, free_bits=128 * n + 64, stubs=UF, abstract=True,
                     fns=["mul_nx1", "addmul_nx1", "submul_nx1"], timeout=1200))
    for n in range(1, 4):
        tier = "quick" if n <= 2 else "thorough"
        out.append(H("c15_nx1_real_%d" % n, "C15", "c15::nx1_real::<%d,%d>" % (n, n + 1), unwind=n + 3, tier=tier,
                     inst="slices of %d limbs" % n,
                     domain="FULL contents, real DoubleWord bodies; oracle limb products by native u128 `*` on the same "
                            "operands (shared multiplier circuit: decides the kernels and the DoubleWord bodies relative "
                            "to Rust's `*`)", free_bits=128 * n + 64,
                     fns=["mul_nx1", "addmul_nx1", "submul_nx1", "DoubleWord::{muladd, muladd2}"], timeout=1200))
    for nl in range(0, 5):
        for na in range(0, 4):
            for nb in range(0, 4):
                if na + nb > 5 and (nl, na, nb) not in EXTRA_SHAPES:
                    continue
                quick = nl <= 3 and na <= 2 and nb <= 2 and na + nb <= 3
                w = max(nl, na + nb) + 1
                can_over = na > 0 and nb > 0
                out.append(H("c15_addmul_uf_%d_%d_%d" % (nl, na, nb), "C15",
                             "c15::addmul_uf::<%d,%d,%d,%d>" % (nl, na, nb, w), unwind=w + 2,
                             tier="quick" if quick else "thorough", inst="acc %d, a %d, b %d limbs" % (nl, na, nb),
                             domain=UFDOM, free_bits=64 * (nl + na + nb), stubs=UF, abstract=True, fns=["addmul"],
                             role="c15::addmul_uf", timeout=2400,
                             covers_required=(["overflows"] if can_over else []) + (["fits"] if nl > 0 or not can_over else [])))
    SMALLDOM = ("unit-limb sub-domain: every limb of one operand 0 or 1, the other operand and the accumulator FULL, one harness per operand "
                "order; UF layer, exact on this sub-domain (all products fixed by the axioms 0*x = 0, 1*x = x)")
    for (nl, na, nb, tier) in [(2, 2, 1, "quick"), (3, 2, 2, "quick"), (4, 2, 2, "thorough"), (3, 3, 2, "thorough")]:   # per operand order: (3,2,2) 170 s; (4,3,3), (5,3,3): no result in 1500 s (both orders in one harness)
        w = max(nl, na + nb) + 1
        for sw in (0, 1):
            out.append(H("c15_addmul_unit_%d_%d_%d_%s" % (nl, na, nb, "ba" if sw else "ab"), "C15",
                         "c15::addmul_unit::<%d,%d,%d,%d,%d>" % (nl, na, nb, w, sw),
                         unwind=w + 2, tier=tier, inst="acc %d, a %d, b %d limbs" % (nl, na, nb), domain=SMALLDOM,
                         free_bits=64 * (nl + nb) + na, fns=["addmul", "addmul_nx1", "add_nx1"], stubs=UF,
                         role="c15::addmul_unit", timeout=3600, covers_required=["overflows", "fits"]))
    # (an ENUMERATED-shape variant - concrete {0,1} limb patterns with one symbolic word and a symbolic accumulator - was probed to
    #  keep addmul's trimming concrete: 16 calls at (3,2,2) still took > 700 s; each addmul call over Rust slices costs CBMC tens
    #  of seconds whatever is symbolic - not kept)
    for n in range(0, 6):
        tier = "quick" if n <= 2 else "thorough"
        out.append(H("c15_addmul_n_uf_%d" % n, "C15", "c15::addmul_n_uf::<%d,%d>" % (n, 2 * n + 1), unwind=2 * n + 3,
                     tier=tier, inst="%d limbs each" % n, domain=UFDOM, free_bits=192 * n, stubs=UF, abstract=True,
                     fns=["addmul_n"], timeout=2400))
    return out
