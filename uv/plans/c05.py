"""C05 — shifts and rotations."""
from plan import H, nlimbs

QUICK = [0, 1, 7, 64, 65, 128, 250]
ALL = [0, 1, 2, 7, 8, 63, 64, 65, 127, 128, 129, 192, 250, 256]
INTS = ["usize", "u8", "u16", "u32", "u64", "isize", "i8", "i16", "i32", "i64"]


def harnesses():
    out = []
    for b in ALL:
        l = nlimbs(b)
        tier = "quick" if b in QUICK else "thorough"
        inst = "Uint<%d,%d>" % (b, l)
        un = l + 2
        dom = "FULL value x any usize shift amount (incl. >= BITS, >= 64*LIMBS, near usize::MAX) x symbolic bit position"
        out.append(H("c05_shl_%d" % b, "C05", "c05::shl::<%d,%d>" % (b, l), unwind=un, tier=tier, inst=inst,
                     domain=dom, free_bits=b + 64 + 8,
                     fns=["overflowing_shl", "wrapping_shl", "checked_shl", "saturating_shl"],
                     covers_required=(["loses-bits"] if b > 0 else [])
                     + (["whole-limb-shift-keeps-bits"] if b > 64 else [])))
        out.append(H("c05_shr_%d" % b, "C05", "c05::shr::<%d,%d>" % (b, l), unwind=un, tier=tier, inst=inst,
                     domain=dom, free_bits=b + 64 + 8,
                     fns=["overflowing_shr", "wrapping_shr", "checked_shr", "arithmetic_shr"],
                     covers_required=(["loses-bits"] if b > 0 else [])
                     + (["whole-limb-shift-exact"] if b > 64 else [])))
        # rotations also at 192 bits in the quick tier: the smallest width with three whole limbs
        out.append(H("c05_rot_%d" % b, "C05", "c05::rot::<%d,%d,0>" % (b, l), unwind=un,
                     tier="quick" if b == 192 else tier, inst=inst,
                     domain="FULL value x amount in 0..=65535 (covers [0, BITS+64*LIMBS+1]) x symbolic bit position",
                     free_bits=b + 16 + 8, fns=["rotate_left", "rotate_right"], timeout=900))
        if b <= 65:
            out.append(H("c05_rot_anyusize_%d" % b, "C05", "c05::rot::<%d,%d,1>" % (b, l), unwind=un,
                         tier="thorough", inst=inst, domain=dom, free_bits=b + 64 + 8,
                         fns=["rotate_left", "rotate_right"], timeout=1800))
        for t, ty in enumerate(INTS):
            # quick: every type at 65 bits, usize/u8/i64 elsewhere
            tq = tier if (b == 65 or ty in ("usize", "u8", "i64")) else "thorough"
            out.append(H("c05_ops_%s_%d" % (ty, b), "C05", "c05::ops_int::<%d,%d,%d>" % (b, l, t), unwind=un,
                         tier=tq, inst=inst, role="c05::ops_int." + ty,
                         domain="FULL value x every non-negative %s amount x symbolic bit position" % ty,
                         free_bits=b + 64 + 8,
                         fns=["Shl<%s>" % ty, "Shl<&%s>" % ty, "ShlAssign<%s>" % ty, "ShlAssign<&%s>" % ty,
                              "Shr<%s>" % ty, "Shr<&%s>" % ty, "ShrAssign<%s>" % ty, "ShrAssign<&%s>" % ty]))
        out.append(H("c05_ops_uint_%d" % b, "C05", "c05::ops_uint::<%d,%d>" % (b, l), unwind=un, tier=tier,
                     inst=inst, domain="FULL value x FULL Uint-typed amount (incl. >= 2^64 when LIMBS >= 2)",
                     free_bits=2 * b + 8,
                     fns=["Shl<Uint>", "Shl<&Uint>", "ShlAssign<Uint>", "ShlAssign<&Uint>", "Shr<Uint>", "Shr<&Uint>",
                          "ShrAssign<Uint>", "ShrAssign<&Uint>"],
                     covers_required=(["amount-ge-2^64"] if b > 64 else [])))
    for (b, amounts) in [(192, [64, 128, 65]), (256, [64, 192]), (250, [64, 186]), (128, [64])]:
        l = nlimbs(b)
        for sft in amounts:
            out.append(H("c05_rot_const_%d_by%d" % (b, sft), "C05", "c05::rot_const::<%d,%d,%d>" % (b, l, sft),
                         unwind=l + 2, tier="quick" if b in (192, 128) else "thorough", inst="Uint<%d,%d>" % (b, l),
                         domain="FULL value x concrete amount %d (whole-limb / mixed) x symbolic bit position" % sft,
                         free_bits=b + 8, fns=["rotate_left", "rotate_right"], role="c05::rot_const", timeout=600))
    return out
