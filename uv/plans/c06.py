"""C06 — bitwise logic, bit access, counting."""
from plan import H, nlimbs, nbytes

QUICK = [0, 1, 7, 64, 65, 128, 250]
ALL = [0, 1, 2, 7, 8, 63, 64, 65, 127, 128, 129, 192, 250, 256]


def harnesses():
    out = []
    for b in ALL:
        l, nb = nlimbs(b), nbytes(b)
        tier = "quick" if b in QUICK else "thorough"
        inst = "Uint<%d,%d>" % (b, l)
        un = l + 2
        out.append(H("c06_logic_%d" % b, "C06", "c06::logic::<%d,%d>" % (b, l), unwind=un, tier=tier, inst=inst,
                     domain="FULL pairs x symbolic bit position", free_bits=2 * b + 8,
                     fns=["not", "Not", "BitAnd", "BitOr", "BitXor", "BitAndAssign", "BitOrAssign", "BitXorAssign"]))
        out.append(H("c06_access_%d" % b, "C06", "c06::access::<%d,%d,%d>" % (b, l, nb), unwind=un, tier=tier,
                     inst=inst, domain="FULL value x any usize index (read) x any usize frame position x bool",
                     free_bits=b + 129, fns=["bit", "set_bit", "checked_byte", "byte"],
                     covers_required=["index-out-of-range"] + (["index-in-range"] if b else [])))
        out.append(H("c06_byte_oob_%d" % b, "C06", "c06::byte_oob_panics::<%d,%d,%d>" % (b, l, nb), unwind=un,
                     tier=tier, inst=inst, kind="never_returns", domain="FULL value x any index >= BYTES",
                     free_bits=b + 64, fns=["byte"]))
        out.append(H("c06_count_%d" % b, "C06", "c06::count::<%d,%d>" % (b, l), unwind=un, tier=tier, inst=inst,
                     domain="FULL value x symbolic bit position", free_bits=b + 8,
                     fns=["leading_zeros", "leading_ones", "trailing_zeros", "trailing_ones", "count_ones",
                          "count_zeros", "bit_len", "byte_len", "is_power_of_two"]))
        out.append(H("c06_misc_%d" % b, "C06", "c06::misc::<%d,%d>" % (b, l), unwind=un, tier=tier, inst=inst,
                     domain="FULL value x symbolic bit position", free_bits=b + 8,
                     fns=["reverse_bits", "most_significant_bits", "checked_next_power_of_two",
                          "next_power_of_two"], covers_required=(["next-pow2-none"] if b != 1 else [])))
        if b != 1:  # at one bit every value has a fitting power of two
          out.append(H("c06_next_pow2_panics_%d" % b, "C06", "c06::next_pow2_panics::<%d,%d>" % (b, l), unwind=un,
                     tier=tier, inst=inst, kind="never_returns",
                     domain="every value whose next power of two does not fit", free_bits=b,
                     fns=["next_power_of_two"]))
    return out
