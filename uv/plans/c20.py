"""C20 — facades agree with inherent methods."""
from plan import H, nlimbs, nbytes

MIXMUL = [("ruint::Uint::wrapping_mul", "stubs::wrapping_mul_mix"),
          ("ruint::Uint::overflowing_mul", "stubs::overflowing_mul_mix")]
MIXDIV = [("ruint::Uint::div_rem", "stubs::div_rem_mix")]
GRID = [0, 1, 7, 64, 65, 128, 250]
QUICK = [0, 7, 65, 250]


def harnesses():
    out = []
    for b in GRID:
        l, nb = nlimbs(b), nbytes(b)
        tier = "quick" if b in QUICK else "thorough"
        inst = "Uint<%d,%d>" % (b, l)
        un = max(8 * l + 3, 6)

        def add(name, body, fns, **kw):
            out.append(H("c20_%s_%d" % (name, b), "C20", body, unwind=kw.pop("unwind", un), tier=kw.pop("tier", tier),
                         inst=inst, fns=fns, timeout=kw.pop("timeout", 900), **kw))

        add("subtle", "c20::subtle::<%d,%d>" % (b, l),
            ["ConstantTimeEq", "ConstantTimeGreater", "ConstantTimeLess", "ConditionallySelectable",
             "ConditionallyNegatable", "bit_ct"], domain="FULL pairs, symbolic choice and index", free_bits=2 * b + 65)
        add("bit_ct_panics", "c20::bit_ct_panics::<%d,%d>" % (b, l), ["bit_ct"], kind="never_returns",
            domain="FULL value, any index >= BITS", free_bits=b + 64)
        add("bits_wrapper", "c20::bits_wrapper::<%d,%d,%d>" % (b, l, nb),
            ["Bits: reverse_bits, leading/trailing zeros/ones, checked/overflowing/wrapping shl/shr, to/from le/be bytes, "
             "from_limbs, as_limbs, Index, Not, BitAnd/BitOr/BitXor (+Assign) in all shapes"],
            domain="FULL pairs, any usize amount/index", free_bits=2 * b + 64, unwind=max(un, nb + 2),
            tier=tier if b != 250 else "thorough", timeout=3600)
        add("bits_rotate", "c20::bits_rotate::<%d,%d>" % (b, l), ["Bits::rotate_left", "Bits::rotate_right"],
            domain="FULL value, amount 0..=65535", free_bits=b + 16, tier=tier if b != 250 else "thorough")
        groups = [["Zero", "One", "Bounded", "CheckedAdd/Sub/Neg/Shl/Shr", "Saturating", "SaturatingAdd/Sub"],
                  ["WrappingAdd/Sub/Neg/Shl/Shr", "OverflowingAdd/Sub"], ["ToPrimitive", "FromPrimitive", "NumCast"],
                  ["PrimInt counts/shifts/reverse_bits/from_le/to_le"]]
        for w, g in enumerate(groups):
            add("nt_cheap_g%d" % w, "c20::nt_cheap::<%d,%d,%d>" % (b, l, w), g,
                domain="FULL pairs, any u32 amount, any u128 source", free_bits=2 * b + 160, role="c20::nt_cheap.g%d" % w,
                timeout=3600 if (w == 3 and b == 250) else 1800, tier="thorough" if (w == 3 and b == 250) else tier)
        add("nt_rotate", "c20::nt_rotate::<%d,%d>" % (b, l), ["PrimInt::rotate_left", "PrimInt::rotate_right"],
            domain="FULL value, amount 0..=65535", free_bits=b + 16, tier=tier if b != 250 else "thorough")
        add("nt_bytes", "c20::nt_bytes::<%d,%d,%d>" % (b, l, nb), ["ToBytes", "FromBytes"],
            domain="FULL value, symbolic byte position", free_bits=b + 8, unwind=max(un, nb + 2))
        add("nt_mul", "c20::nt_mul::<%d,%d>" % (b, l),
            ["CheckedMul", "SaturatingMul", "WrappingMul", "OverflowingMul", "MulAdd", "MulAddAssign"],
            domain="FULL triples; inherent wrapping_mul/overflowing_mul replaced by tagged mixing functions",
            free_bits=3 * b, stubs=MIXMUL, abstract=True)
        if b > 0:
            add("nt_div", "c20::nt_div::<%d,%d>" % (b, l),
                ["Div/Rem/DivAssign/RemAssign (all shapes)", "wrapping_div", "wrapping_rem", "CheckedDiv", "CheckedRem",
                 "Euclid", "CheckedEuclid", "Integer::{div_floor,mod_floor,div_rem,div_mod_floor,div_ceil,is_multiple_of}"],
                domain="FULL pairs, divisor != 0; inherent div_rem replaced by a tagged mixing function",
                free_bits=2 * b, stubs=MIXDIV, abstract=True)
        add("sum_product", "c20::sum_product::<%d,%d>" % (b, l), ["Sum<Uint>", "Sum<&Uint>", "Product<Uint>", "Product<&Uint>"],
            domain="FULL triples, symbolic element count 0..=3; wrapping_mul replaced by a tagged mixing function",
            free_bits=3 * b + 2, stubs=MIXMUL, abstract=True, covers_required=["empty"])
        add("nt_misc", "c20::nt_misc::<%d,%d>" % (b, l),
            ["CheckedDiv/CheckedRem/CheckedEuclid on zero divisor", "Integer::{is_multiple_of(0),is_even,is_odd,inc,dec}"],
            domain="FULL value", free_bits=b)
    FWD = [("ruint::Uint::pow", "stubs::pow_mix"), ("ruint::Uint::inv_ring", "stubs::inv_ring_mix"),
           ("ruint::Uint::gcd", "stubs::gcd_mix"), ("ruint::Uint::lcm", "stubs::lcm_mix"),
           ("ruint::Uint::gcd_extended", "stubs::gcd_extended_mix")]
    for b in GRID:
        l, nb = nlimbs(b), nbytes(b)
        tier = "quick" if b in QUICK else "thorough"
        inst = "Uint<%d,%d>" % (b, l)
        un = max(8 * l + 3, 6)
        out.append(H("c20_nt_forward_%d" % b, "C20", "c20::nt_forward::<%d,%d>" % (b, l), unwind=un, tier=tier, inst=inst,
                     stubs=FWD, abstract=True, timeout=900, free_bits=2 * b + 32,
                     domain="FULL pairs, any u32 exponent; inherent pow/inv_ring/gcd/lcm/gcd_extended replaced by tagged mixing functions",
                     fns=["Pow", "Inv", "PrimInt::pow", "Integer::{gcd,lcm,extended_gcd}"],
                     covers_required=((["primint-pow"] + (["lcm-some"] if b > 1 else [])) if b > 0 else [])))   # 1 bit: the lcm stub is always None
        if b > 0:
            out.append(H("c20_nt_lcm_none_panics_%d" % b, "C20", "c20::nt_lcm_none_panics::<%d,%d>" % (b, l), unwind=un, tier=tier,
                         inst=inst, stubs=FWD, abstract=True, timeout=900, free_bits=2 * b, kind="never_returns",
                         domain="FULL pairs on which the (stubbed) inherent lcm is None", fns=["Integer::lcm"]))
    # (zeroize: the crate's volatile write ends in inline assembly, which Kani does not support - c20::zeroize_facade is not registered)
    for b in [8, 64, 72, 128, 256]:
        l, nb = nlimbs(b), nbytes(b)
        out.append(H("c20_nt_swap_bytes_%d" % b, "C20", "c20::nt_swap_bytes::<%d,%d,%d>" % (b, l, nb), unwind=max(nb, 8 * l) + 3,
                     tier="quick" if b in (64, 72) else "thorough", inst="Uint<%d,%d>" % (b, l), timeout=900, free_bits=b + 8,
                     domain="FULL value, one symbolic byte position (widths that are a multiple of 8)",
                     fns=["PrimInt::{swap_bytes,to_be,from_be,to_le,from_le}"]))
    return out
