"""C08 — byte encodings."""
from plan import H, nlimbs, nbytes

QUICK = [0, 1, 8, 60, 64, 65, 72, 120]
ALL = [0, 1, 7, 8, 9, 15, 16, 60, 63, 64, 65, 72, 120, 128, 129, 250]


def harnesses():
    out = []
    for b in ALL:
        l, nb = nlimbs(b), nbytes(b)
        tier = "quick" if b in QUICK else "thorough"
        inst = "Uint<%d,%d>" % (b, l)
        full = "FULL value (all %d-bit values), one symbolic byte position" % b
        out.append(H("c08_enc_fixed_%d" % b, "C08", "c08::enc_fixed::<%d,%d,%d>" % (b, l, nb),
                     unwind=max(nb, l) + 2, tier=tier, inst=inst, domain=full, free_bits=b + 8,
                     fns=["to_le_bytes", "to_be_bytes", "as_le_slice", "from_le_bytes", "from_be_bytes",
                          "try_from_le_slice", "try_from_be_slice"]))
        vecforms = ["to_le_bytes_vec", "to_be_bytes_vec", "as_le_bytes", "to_le_bytes_trimmed_vec",
                    "to_be_bytes_trimmed_vec", "as_le_bytes_trimmed"]
        for w, f in enumerate(vecforms):
            # reversing a heap vector of symbolic length is slow for CBMC (78 s at 120 bits)
            slow = (w == 4 and b > 72)
            out.append(H("c08_enc_vec_%d_%s" % (b, f), "C08", "c08::enc_vec::<%d,%d,%d,%d>" % (b, l, nb, w),
                         unwind=max(nb, l) + 2, tier="thorough" if slow else tier, timeout=1800 if slow else 300,
                         inst=inst, domain=full, free_bits=b + 8,
                         role="c08::enc_vec." + f,
                         fns=[f] + (["try_from_le_slice"] if w == 3 else ["try_from_be_slice"] if w == 4 else [])))
        out.append(H("c08_copy_to_%d" % b, "C08", "c08::copy_to::<%d,%d,%d,%d>" % (b, l, nb, nb + 2),
                     unwind=max(nb + 2, l) + 2, tier=tier, inst=inst,
                     domain="FULL value, arbitrary buffer of symbolic length 0..=BYTES+2, symbolic endianness and position",
                     free_bits=b + 8 * (nb + 2) + 20,
                     fns=["checked_copy_le_bytes_to", "checked_copy_be_bytes_to", "copy_le_bytes_to",
                          "copy_be_bytes_to"]))
        if nb > 0:
            out.append(H("c08_copy_short_panics_%d" % b, "C08",
                         "c08::copy_to_short_panics::<%d,%d,%d>" % (b, l, nb),
                         unwind=max(nb, l) + 2, tier=tier, inst=inst, kind="never_returns",
                         domain="FULL value, buffer length symbolic in 0..BYTES",
                         free_bits=b + 8, fns=["copy_le_bytes_to", "copy_be_bytes_to"]))
        for (k, t2) in ((3, tier), (8, "thorough")):
            nx = nb + k
            out.append(H("c08_dec_%d_p%d" % (b, k), "C08", "c08::dec::<%d,%d,%d,%d>" % (b, l, nb, nx),
                         unwind=max(nx, l) + 2, tier=t2, inst=inst,
                         domain="any byte string of symbolic length 0..=BYTES+%d, symbolic endianness" % k,
                         free_bits=8 * nx + 10, fns=["try_from_be_slice", "try_from_le_slice"],
                         covers_required=["accepts-some"]))
        nx = nb + 3
        out.append(H("c08_dec_panicking_ok_%d" % b, "C08",
                     "c08::dec_panicking_ok::<%d,%d,%d,%d>" % (b, l, nb, nx),
                     unwind=max(nx, l) + 2, tier=tier, inst=inst,
                     domain="any byte string of length 0..=BYTES+3 denoting a value < 2^BITS",
                     free_bits=8 * nx + 10, fns=["from_be_slice", "from_le_slice"]))
        out.append(H("c08_dec_panicking_bad_%d" % b, "C08",
                     "c08::dec_panicking_bad::<%d,%d,%d,%d>" % (b, l, nb, nx),
                     unwind=max(nx, l) + 2, tier=tier, inst=inst, kind="never_returns",
                     domain="any byte string of length 0..=BYTES+3 that is too long or denotes a value >= 2^BITS",
                     free_bits=8 * nx + 10, fns=["from_be_slice", "from_le_slice"]))
        out.append(H("c08_wrong_bytes_%d" % b, "C08",
                     "c08::wrong_bytes_panics::<%d,%d,%d>" % (b, l, nb + 1),
                     unwind=max(nb + 1, l) + 2, tier=tier, inst=inst, kind="never_returns",
                     domain="FULL value, const BYTES argument = Self::BYTES + 1",
                     free_bits=b + 2, fns=["to_le_bytes", "to_be_bytes", "from_le_bytes", "from_be_bytes"]))
    return out
