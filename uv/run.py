#!/usr/bin/env python3
"""Driver: plan -> build -> solve -> classify -> playback -> native replay ->
known-findings -> evidence.  See DESIGN.md section 4.6.

Exit codes: 0 held on everything explored (KNOWN-FINDING lines allowed),
1 at least one VIOLATION line, 2 inconclusive (timeout / tool error / vacuous
harness / non-reproducing counterexample of a non-abstract harness).
"""
import argparse
import json
import os
import re
import shutil
import subprocess
import sys
import time

HERE = os.path.dirname(os.path.abspath(__file__))
ROOT = os.path.dirname(HERE)
sys.path.insert(0, HERE)
import plan  # noqa: E402
import gen  # noqa: E402

WORK = os.path.join(ROOT, ".work")
HARNESS = os.path.join(ROOT, "harness")
REPO = "/repo"
# Development aid (seeded-change evaluation in parallel): VERIF_REPO=<scratch worktree> runs the same harness
# crate against that tree with its own work dir.  Registered commands never set it: they check /repo itself.
ALT = os.environ.get("VERIF_REPO")
if ALT:
    import hashlib
    _tag = hashlib.sha1(ALT.encode()).hexdigest()[:8]
    WORK = os.path.join(ROOT, ".work", "alt-" + _tag)
    REPO = ALT
JOBS = int(os.environ.get("VERIF_JOBS", "16"))
MEM_KB = int(os.environ.get("VERIF_MEM_KB", str(14 * 1024 * 1024)))

ENV = dict(os.environ)
ENV["CARGO_NET_OFFLINE"] = "true"
ENV.pop("RUSTFLAGS", None)


def log(*a):
    print(*a, flush=True)


def sh(cmd, cwd=None, timeout=None, out=None, mem_kb=None):
    """run a shell command under the per-process memory limit; returns (rc, seconds)"""
    t0 = time.time()
    full = "ulimit -v %d; %s" % (mem_kb or MEM_KB, cmd)
    f = open(out, "w") if out else subprocess.DEVNULL
    try:
        p = subprocess.run(["bash", "-c", full], cwd=cwd, env=ENV, stdout=f, stderr=subprocess.STDOUT,
                           timeout=timeout)
        rc = p.returncode
    except subprocess.TimeoutExpired:
        rc = -9
    finally:
        if out:
            f.close()
    return rc, time.time() - t0


def kani_cmd(prop, names, target, export, extra=""):
    feat = prop.lower()
    hs = " ".join("--harness gen::proofs_%s::%s" % (feat, n) for n in names)
    return ("cargo kani --features %s --target-dir %s %s --exact -j %d --output-format terse "
            "-Z unstable-options -Z stubbing --export-json %s %s"
            % (feat, target, hs, JOBS, export, extra))


def unwindset(h):
    """per-loop bounds passed straight to CBMC (must come last on the command line)"""
    d = {"memcmp.0": h.memcmp}
    d.update(h.extra_unwind)
    return "--cbmc-args --unwindset " + ",".join("%s:%d" % kv for kv in sorted(d.items()))


# ---------------------------------------------------------------- solve ----

def run_playback(prop, hs, tag):
    """concrete playback is incompatible with --jobs: one cargo-kani process per harness, run concurrently
    (they share the target dir; cargo serialises the short build step, CBMC runs overlap)"""
    from concurrent.futures import ThreadPoolExecutor
    target = os.path.join(WORK, "kt")
    results = {}

    def one(h):
        outlog = os.path.join(WORK, "%s-%s-%s.out" % (prop, tag, h.name))
        feat = prop.lower()
        cmd = ("cargo kani --features %s --target-dir %s --harness gen::proofs_%s::%s --exact --output-format terse "
               "-Z unstable-options -Z stubbing --harness-timeout %ds -Z concrete-playback --concrete-playback=print %s"
               % (feat, target, feat, h.name, 2 * h.timeout, unwindset(h)))
        # the driver itself parses CBMC's full JSON trace for playback: give it room (measured: 14 GB is not
        # enough for the der harnesses), and run fewer of them at once
        sh(cmd, cwd=HARNESS, timeout=2 * h.timeout + 600, out=outlog, mem_kb=3 * MEM_KB)
        txt = open(outlog, errors="replace").read()
        return h.name, parse_playback(txt).get(h.name, [])

    with ThreadPoolExecutor(max_workers=max(1, JOBS // 4)) as ex:
        for name, tapes in ex.map(one, hs):
            results[name] = {"tapes": tapes}
    return results


def run_kani(prop, hs, tag, playback=False):
    """one cargo-kani invocation per timeout class; returns dict name -> result"""
    if playback:
        return run_playback(prop, hs, tag)
    target = os.path.join(WORK, "kt")
    results = {}
    # group by timeout so --harness-timeout is tight for cheap harnesses
    groups = {}
    # one cargo-kani invocation per unwindset class: separate invocations run one after the other, so harnesses
    # of one class share the largest timeout of the class instead of being split by timeout
    tmax = {}
    for h in hs:
        tmax[unwindset(h)] = max(tmax.get(unwindset(h), 0), h.timeout)
    for h in hs:
        groups.setdefault((tmax[unwindset(h)], unwindset(h)), []).append(h)
    for gi, ((tmo, uws), grp) in enumerate(sorted(groups.items())):
        names = [h.name for h in grp]
        export = os.path.join(WORK, "%s-%s-%d-%d.json" % (prop, tag, tmo, gi))
        outlog = os.path.join(WORK, "%s-%s-%d-%d.out" % (prop, tag, tmo, gi))
        if os.path.exists(export):
            os.remove(export)
        extra = "--harness-timeout %ds %s" % (tmo, uws)
        waves = (len(names) + JOBS - 1) // JOBS
        overall = 600 + waves * (tmo + 60)
        rc, secs = sh(kani_cmd(prop, names, target, export, extra), cwd=HARNESS, timeout=overall, out=outlog)
        parsed = parse_export(export) if os.path.exists(export) else {}
        txt = open(outlog, errors="replace").read()
        build_failed = ("error: could not compile" in txt) or ("Failed to execute cargo" in txt)
        for h in grp:
            r = parsed.get(h.name)
            if r is None:
                r = {"status": "tool-error", "checks": [], "duration_s": 0.0, "stats": {},
                     "note": "build failed" if build_failed else ("kani rc=%s, harness missing from export" % rc)}
            results[h.name] = r
        if playback:
            tapes = parse_playback(txt)
            for n, t in tapes.items():
                if n in results:
                    results[n]["tapes"] = t
        results.setdefault("__logs__", []).append(outlog)
        if build_failed:
            results["__build_failed__"] = outlog
    return results


def parse_export(path):
    d = json.load(open(path))
    stats = {c["harness_id"]: c.get("cbmc_stats", {}) for c in d.get("cbmc", [])}
    errs = {c["harness_id"]: c for c in d.get("error_details", [])}
    out = {}
    for r in d["verification_results"]["results"]:
        hid = r["harness_id"]
        name = hid.split("::")[-1]
        out[name] = {
            "status": r["status"],
            "duration_s": r.get("duration_ms", 0) / 1000.0,
            "checks": r.get("checks", []),
            "stats": stats.get(hid, {}),
            "err": errs.get(hid, {}),
        }
    return out


PB_HDR = re.compile(r"Concrete playback unit test for `([^`]+)`:")
PB_CHECK = re.compile(r"/// Check for `([^`]+)`: \"(.*)\"")
PB_VEC = re.compile(r"^\s*vec!\[([0-9, ]*)\],?\s*$")


def parse_playback(txt):
    """-> {harness: [{"class":..., "desc":..., "tape":[[..],..]}]}"""
    out = {}
    cur_h = None
    cur = None
    for line in txt.splitlines():
        m = PB_HDR.search(line)
        if m:
            cur_h = m.group(1).split("::")[-1]
            cur = None
            continue
        m = PB_CHECK.search(line)
        if m and cur_h:
            cur = {"class": m.group(1), "desc": m.group(2), "tape": []}
            out.setdefault(cur_h, []).append(cur)
            continue
        if cur is not None:
            m = PB_VEC.match(line)
            if m:
                body = m.group(1).strip()
                cur["tape"].append([int(x) for x in body.split(",") if x.strip()] if body else [])
            elif "concrete_playback_run" in line:
                cur = None
    return out


# ------------------------------------------------------------- classify ----

def classify(h, r):
    """-> dict(verdict=pass|fail|inconclusive, failures=[...], covers={label:status}, reason=str)"""
    covers = {}
    fails = []
    unwind_fail = False
    undetermined = 0
    for c in r.get("checks", []):
        st = c.get("status", "").upper()
        cat = c.get("category", "")
        desc = c.get("description", "")
        if cat == "cover":
            # the same label may sit at several sites: SATISFIED if any site is
            if covers.get(desc) != "SATISFIED":
                covers[desc] = st
            continue
        if st == "FAILURE":
            if cat == "unwind" or desc.startswith("unwinding assertion"):
                unwind_fail = True
            else:
                loc = c.get("location", {})
                fails.append({"desc": desc, "cat": cat, "file": loc.get("file", ""), "line": loc.get("line", ""),
                              "function": c.get("function", "")})
        elif st in ("UNDETERMINED", "UNKNOWN", "ERROR"):
            undetermined += 1
    status = r.get("status", "")
    res = {"covers": covers, "failures": fails, "verdict": "pass", "reason": ""}
    if status in ("tool-error",) or (not r.get("checks") and status != "Success"):
        res["verdict"] = "inconclusive"
        res["reason"] = r.get("note") or ("no results (timeout, out of memory or tool error): status=%s" % status)
        return res
    if unwind_fail:
        res["verdict"] = "inconclusive"
        res["reason"] = "unwinding assertion failed: loop bound %d too small" % h.unwind
        return res
    if h.kind == "never_returns":
        before = covers.get("before-call", "")
        ret = covers.get("returned", "")
        if before != "SATISFIED":
            res["verdict"] = "inconclusive"
            res["reason"] = "vacuous: call site not reachable (before-call %s)" % before
        elif ret == "SATISFIED":
            res["verdict"] = "fail"
            res["failures"] = [{"desc": "returned", "cat": "cover", "file": "", "line": "", "function": ""}]
        elif ret in ("UNSATISFIABLE", "UNREACHABLE"):
            res["verdict"] = "pass"
            res["failures"] = []
        else:
            res["verdict"] = "inconclusive"
            res["reason"] = "cover 'returned' undetermined (%s)" % ret
        return res
    # failures caused only by unwinding cut are marked by Kani as UNDETERMINED; we saw none => definite
    if fails:
        res["verdict"] = "fail"
        return res
    if undetermined:
        res["verdict"] = "inconclusive"
        res["reason"] = "%d undetermined checks" % undetermined
        return res
    if covers.get("reach-end") != "SATISFIED":
        res["verdict"] = "inconclusive"
        res["reason"] = "vacuous: end of harness unreachable (reach-end %s)" % covers.get("reach-end")
        return res
    for lab in h.covers_required:
        if covers.get(lab) != "SATISFIED":
            res["verdict"] = "inconclusive"
            res["reason"] = "required witness '%s' is %s" % (lab, covers.get(lab))
            return res
    if status != "Success":
        res["verdict"] = "inconclusive"
        res["reason"] = "kani status %s without failed checks" % status
    return res


# --------------------------------------------------------------- replay ----

_built = {}


def build_replayer(prop, profile):
    key = (prop, profile)
    if key in _built:
        return _built[key]
    target = os.path.join(WORK, "nt")
    flag = "--release" if profile == "release" else ""
    out = os.path.join(WORK, "%s-replay-build-%s.out" % (prop, profile))
    rc, _ = sh("cargo build --offline --features %s --bin replay %s --target-dir %s" % (prop.lower(), flag, target),
               cwd=HARNESS, timeout=1800, out=out)
    exe = os.path.join(target, "release" if profile == "release" else "debug", "replay")
    _built[key] = exe if rc == 0 and os.path.exists(exe) else None
    if _built[key] is None:
        log("  replay build failed (%s), see %s" % (profile, out))
    else:
        # private copy per property: another check may rebuild the shared binary with other features
        priv = os.path.join(WORK, "replay-%s-%s" % (prop.lower(), profile))
        shutil.copy2(exe, priv)
        _built[key] = priv
    return _built[key]


def native(prop, name, tape, profile):
    exe = build_replayer(prop, profile)
    if not exe:
        return {"status": "replay-build-failed"}
    tp = os.path.join(WORK, "tape-%s-%d.json" % (name, os.getpid()))
    with open(tp, "w") as f:
        json.dump(tape, f)
    try:
        p = subprocess.run([exe, name, tp], capture_output=True, text=True, timeout=120)
        line = p.stdout.strip().splitlines()[-1] if p.stdout.strip() else ""
        try:
            return json.loads(line)
        except Exception:
            return {"status": "abort", "rc": p.returncode, "stderr": p.stderr[-400:]}
    except subprocess.TimeoutExpired:
        return {"status": "hang"}
    finally:
        os.remove(tp)


def native_failed(h, out):
    """did the native run violate the harness' obligation?  -> (bool, what)"""
    st = out.get("status")
    if h.kind == "never_returns":
        if st in ("ok", "check-failed") and "returned" in out.get("covers", []):
            return True, h.role + ".returned-instead-of-panicking"
        return False, ""
    if st == "check-failed":
        return True, ",".join(out.get("failures", []))
    if st == "panic":
        loc = out.get("panic_loc", "")
        return True, "panic:%s:%s" % (short_loc(loc), out.get("panic_msg", "")[:80])
    if st in ("abort", "hang"):
        return True, st
    return False, ""


def short_loc(loc):
    loc = loc.replace("/repo/", "")
    m = re.match(r"(.*):(\d+)$", loc)
    return m.group(1) if m else loc


# ------------------------------------------------------- known findings ----

def load_known():
    p = os.path.join(ROOT, "known_findings.json")
    if not os.path.exists(p):
        return []
    return json.load(open(p)).get("findings", [])


def match_known(known, prop, h, what):
    for k in known:
        if k["property"] != prop:
            continue
        if not re.fullmatch(k.get("role", ".*"), h.role):
            continue
        if re.search(k["match"], what):
            return k
    return None


# ------------------------------------------------------------------ main ----

def main():
    ap = argparse.ArgumentParser()
    ap.add_argument("prop")
    ap.add_argument("--tier", default=os.environ.get("VERIF_TIER", "quick"), choices=["quick", "thorough"])
    ap.add_argument("--only", default=None, help="regex on harness names (development)")
    ap.add_argument("--replay", default=None, help="replay a stored counterexample file natively")
    ap.add_argument("--no-evidence", action="store_true")
    a = ap.parse_args()
    prop = a.prop.upper()
    global JOBS
    if a.tier == "thorough" and "VERIF_JOBS" not in os.environ:
        # the thorough tiers hold the 5-14 GB harnesses: sixteen of them at once exhaust the 62 GB of the image and the
        # kernel's OOM killer turns passes into inconclusive results; eight leave headroom
        JOBS = 8
    seed = int(os.environ.get("VERIF_SEED", "0") or 0)
    os.makedirs(WORK, exist_ok=True)
    gen.write()
    sync_lock()
    if ALT:
        use_alt_harness()

    if a.replay:
        return do_replay(prop, a.replay)

    t0 = time.time()
    hs = plan.select(prop, a.tier)
    if a.only:
        hs = [h for h in hs if re.search(a.only, h.name)]
    if not hs:
        log("no harnesses planned for %s" % prop)
        return 2
    # VERIF_SEED only permutes the order in which harnesses are scheduled
    if seed:
        import random
        random.Random(seed).shuffle(hs)
    devcap = int(os.environ.get("VERIF_DEV_TIMEOUT", "0") or 0)   # development aid: cap every harness timeout
    if devcap:
        for h in hs:
            h.timeout = min(h.timeout, devcap)
    byname = {h.name: h for h in hs}
    log("[%s] tier=%s harnesses=%d jobs=%d" % (prop, a.tier, len(hs), JOBS))

    res = run_kani(prop, hs, a.tier)
    if "__build_failed__" in res:
        log("BUILD FAILED: see %s" % res["__build_failed__"])
        tail = open(res["__build_failed__"], errors="replace").read()
        errs = [l for l in tail.splitlines() if l.startswith("error")]
        for l in errs[:10]:
            log("   " + l)
    cls = {n: classify(byname[n], res[n]) for n in byname}

    failing = [n for n in byname if cls[n]["verdict"] == "fail"]
    inconclusive = [n for n in byname if cls[n]["verdict"] == "inconclusive"]
    violations = []   # (harness, what, replay_path)
    known_hits = []
    unconfirmed = []
    replayed = 0
    known = load_known()

    if failing:
        log("[%s] %d harness(es) with counterexamples; extracting concrete inputs" % (prop, len(failing)))
        pb = run_kani(prop, [byname[n] for n in failing], a.tier + "-pb", playback=True)
        for n in failing:
            h = byname[n]
            tapes = pb.get(n, {}).get("tapes", [])
            # candidate tapes: Kani prints one test per distinct input vector and labels it with the first
            # property that produced it, so a failing assertion whose input coincides with a cover witness
            # appears under the cover's label: try every tape, failed-assertion ones first.
            cands = sorted(tapes, key=lambda t: t["class"] == "cover")
            # last resort (e.g. a harness whose only draws Kani did not print): the all-zero tape
            cands.append({"class": "fallback", "desc": "all-zero tape", "tape": []})
            seen = set()
            got_any = False
            for t in cands:
                key = json.dumps(t["tape"])
                if key in seen:
                    continue
                seen.add(key)
                dev = native(prop, n, t["tape"], "dev")
                rel = native(prop, n, t["tape"], "release")
                replayed += 1
                fd, wd = native_failed(h, dev)
                fr, wr = native_failed(h, rel)
                if not (fd or fr):
                    continue
                got_any = True
                what = wd if fd else wr
                prof = "dev+release" if (fd and fr) else ("dev-only" if fd else "release-only")
                k = match_known(known, prop, h, what)
                rec = {"harness": n, "role": h.role, "inst": h.inst, "what": what, "profiles": prof,
                       "kani_check": t["desc"], "tape": t["tape"], "native_dev": dev, "native_release": rel}
                if k:
                    known_hits.append((k, rec))
                else:
                    path = save_replay(prop, rec)
                    violations.append((n, what, path))
            if not got_any:
                descs = sorted({f["desc"] for f in cls[n]["failures"]})
                if h.abstract:
                    unconfirmed.append((n, descs))
                    cls[n]["verdict"] = "unconfirmed"
                else:
                    cls[n]["verdict"] = "inconclusive"
                    cls[n]["reason"] = ("solver counterexample did not reproduce natively (%d tapes tried): %s"
                                        % (len(seen), "; ".join(descs)[:200]))
                    inconclusive.append(n)

    # ---- report
    printed = set()
    for k, rec in known_hits:
        key = (k["id"])
        if key in printed:
            continue
        printed.add(key)
        log("KNOWN-FINDING: property=%s %s [%s; e.g. %s %s]" % (prop, k["what"], k["id"], rec["harness"], rec["what"]))
    for n, descs in unconfirmed:
        log("ABSTRACT-CEX-UNCONFIRMED property=%s harness=%s %s" % (prop, n, "; ".join(descs)[:160]))
    seenv = set()
    for n, what, path in violations:
        if (byname[n].role, what) in seenv:
            continue
        seenv.add((byname[n].role, what))
        log("VIOLATION property=%s replay=%s  (%s: %s)" % (prop, path, n, what))
    for n in inconclusive:
        log("INCONCLUSIVE harness=%s: %s" % (n, cls[n]["reason"]))

    wall = time.time() - t0
    if not a.no_evidence and not a.only and not ALT:
        write_evidence(prop, a.tier, seed, hs, res, cls, violations, known_hits, unconfirmed, inconclusive,
                       replayed, wall)
    npass = sum(1 for n in byname if cls[n]["verdict"] == "pass")
    log("[%s] %d/%d harnesses decided-and-held, %d with known findings only or violations, %d inconclusive, %.0fs"
        % (prop, npass, len(hs), len(failing) - 0, len(inconclusive), wall))
    if violations:
        return 1
    if inconclusive:
        return 2
    return 0


def use_alt_harness():
    """copy the harness crate next to the alternative work dir with its ruint path dependency redirected"""
    global HARNESS
    dst = os.path.join(WORK, "harness")
    if os.path.exists(dst):
        shutil.rmtree(dst)
    shutil.copytree(HARNESS, dst, ignore=shutil.ignore_patterns("target"))
    p = os.path.join(dst, "Cargo.toml")
    s = open(p).read().replace('path = "/repo"', 'path = "%s"' % ALT)
    open(p, "w").write(s)
    HARNESS = dst


def sync_lock():
    """keep harness/Cargo.lock resolvable offline: seed it from /repo's lock if missing"""
    dst = os.path.join(HARNESS, "Cargo.lock")
    if not os.path.exists(dst):
        shutil.copy2(os.path.join(REPO, "Cargo.lock"), dst)


def save_replay(prop, rec):
    d = os.path.join(WORK if ALT else ROOT, "replays", prop)
    os.makedirs(d, exist_ok=True)
    safe = re.sub(r"[^A-Za-z0-9_.-]+", "_", rec["what"])[:60]
    path = os.path.join(d, "%s--%s.json" % (rec["harness"], safe))
    with open(path, "w") as f:
        json.dump({"property": prop, **rec}, f, indent=1)
    return path


def do_replay(prop, path):
    rec = json.load(open(path))
    hs = {h.name: h for h in plan.all_harnesses()}
    h = hs.get(rec["harness"])
    if h is None:
        log("unknown harness %s" % rec["harness"])
        return 2
    bad = False
    for prof in ("dev", "release"):
        out = native(h.prop, h.name, rec["tape"], prof)
        f, what = native_failed(h, out)
        log("%s: %s %s" % (prof, "REPRODUCED " + what if f else "not reproduced", json.dumps(out)))
        bad |= f
    if bad:
        log("VIOLATION property=%s replay=%s" % (h.prop, path))
        return 1
    return 0


def write_evidence(prop, tier, seed, hs, res, cls, violations, known_hits, unconfirmed, inconclusive, replayed, wall):
    evaluations = 0
    obligations = set()
    solver_s = 0.0
    symex_s = 0.0
    vccs = 0
    harness_rows = []
    fns = set()
    stubs = set()
    for h in hs:
        r = res.get(h.name, {})
        c = cls[h.name]
        st = r.get("stats") or {}
        solver_s += st.get("runtime_solver_s", 0.0) or 0.0
        symex_s += st.get("runtime_symex_s", 0.0) or 0.0
        vccs += st.get("vccs_remaining", 0) or 0
        nchecks = 0
        labels = set()
        for k in r.get("checks", []):
            s = k.get("status", "").upper()
            if s in ("SUCCESS", "FAILURE", "SATISFIED", "UNSATISFIABLE"):
                nchecks += 1
            if s in ("SUCCESS", "FAILURE") and k.get("category") in ("assertion",):
                # reachable, solver-decided obligation (chk! label or library panic site)
                loc = k.get("location", {})
                labels.add("%s@%s:%s" % (k.get("description", "")[:80], os.path.basename(str(loc.get("file", ""))),
                                          loc.get("line", "")))
        evaluations += nchecks
        reach_ok = c["verdict"] in ("pass", "fail", "unconfirmed") and h.free_bits > 0
        if reach_ok:
            for lab in labels:
                obligations.add((h.name, lab))
        fns.update(h.fns)
        for s in h.stubs:
            stubs.add("%s -> %s" % s)
        harness_rows.append({
            "harness": h.name, "body": h.body, "instantiation": h.inst, "kind": h.kind, "domain": h.domain,
            "free_input_bits": h.free_bits, "unwind": h.unwind, "entry_points": h.fns, "verdict": c["verdict"],
            "reason": c["reason"], "covers": c["covers"], "checks_decided": nchecks,
            "cbmc_s": round(r.get("duration_s", 0.0), 2), "solver_s": round(st.get("runtime_solver_s", 0.0) or 0.0, 2),
            "vccs": st.get("vccs_remaining", 0), "stubs": ["%s -> %s" % s for s in h.stubs],
        })
    samples = []
    per = {}
    for (n, l) in obligations:
        per.setdefault(n, []).append(l)
    seen_roles = set()
    # written-out cases: the harnesses with the most decided obligations, one per role (operation family)
    for h in sorted(hs, key=lambda h: -len(per.get(h.name, []))):
        if h.role in seen_roles or len(samples) >= 6:
            continue
        seen_roles.add(h.role)
        samples.append({"harness": h.name, "instantiation": h.inst, "domain": h.domain, "entry_points": h.fns,
                        "free_input_bits": h.free_bits, "unwind": h.unwind,
                        "obligations": sorted(per.get(h.name, []))[:10]})
    for k, rec in known_hits[:6]:
        samples.append({"known_finding": k["id"], "harness": rec["harness"], "input_tape": rec["tape"],
                        "native": rec["what"], "profiles": rec["profiles"]})
    for n, what, path in violations[:6]:
        samples.append({"violation": what, "harness": n, "replay": path})
    ev = {
        "property_id": prop,
        "tier": tier,
        "seed": seed,
        "level": "model_checking",
        "coverage": {
            "evaluations": evaluations,
            "distinct_nontrivial": len(obligations),
            "rule": ("evaluations = CBMC properties decided by the SAT solver in this run (chk! obligations, library "
                     "panic/bounds/overflow checks, unwinding assertions, cover witnesses). distinct_nontrivial = "
                     "distinct (harness, assertion label or panic site) pairs that were reachable, solver-decided and "
                     "lie in a harness with >= 1 symbolic input bit whose end (or call site) was shown reachable."),
            "samples": samples,
            "exhaustive": False,
            "engine": "Kani 0.68.0 -> CBMC 6.11.0 -> CaDiCaL (bounded model checking of the compiled /repo source)",
            "harnesses_planned": len(hs),
            "harnesses_held": sum(1 for h in hs if cls[h.name]["verdict"] == "pass"),
            "harnesses_inconclusive": sorted(inconclusive),
            "functions_encoded": sorted(fns),
            "stubs": sorted(stubs),
            "queries_discharged": evaluations,
            "solver_seconds": round(solver_s, 2),
            "symex_seconds": round(symex_s, 2),
            "vccs_remaining_total": vccs,
            "native_replays": replayed,
            "known_findings_hit": sorted({k["id"] for k, _ in known_hits}),
            "abstract_cex_unconfirmed": [n for n, _ in unconfirmed],
            "harnesses": harness_rows,
        },
        "assumptions": [
            "Kani's MIR->goto translation and std models, CBMC bit-blasting, CaDiCaL",
            "bounds: instantiations, input domains and unwinding as listed per harness; nothing outside them is claimed",
            "dev-profile semantics (overflow checks and debug assertions on) in the solver; release observed at replay only",
        ],
        "wall_s": round(wall, 1),
        "violations": len(violations),
    }
    os.makedirs(os.path.join(ROOT, "evidence"), exist_ok=True)
    with open(os.path.join(ROOT, "evidence", prop + ".json"), "w") as f:
        json.dump(ev, f, indent=1)


if __name__ == "__main__":
    sys.exit(main())
